"""Single quantized layers: description DSL, shape model, Hypothesis strategies,
builders for the QKeras layer and for the corresponding stock tf.keras layer.

A *case* is a plain JSON value:

  {"layer": "QConv2D",
   "kw":   {...non-quantizer constructor arguments (geometry, use_bias ...)},
   "q":    {role: quantizer string | None, ...}   # role order = weight order
   "act":  activation (quantizer) string | None,
   "ract": recurrent activation string (LSTM / GRU only),
   "in_shape": [batch, ...],
   "w":    {role: flat list of float32 values},    # roles that own a weight
   "x":    flat list of float32 values,
   "mask": [[..]] (kh x kw) optional kernel mask of QConv2D (Q layer only),
   "qkw":  {...} optional further QKeras-only constructor arguments
           (kernel_range / bias_range / depthwise_range: deprecated, no effect),
   "calls": [{"in_shape": [...], "x": [...]}, ...]  optional further inputs of
           other admissible shapes fed to the SAME layer instance afterwards}

Roles (in the order in which Keras stores the weights; `state` and `average`
own no weight):

  QDense / QConv1D / QConv2D     kernel, bias
  QDepthwiseConv2D               depthwise, bias
  QSeparableConv1D / 2D          depthwise, pointwise, bias
  QSimpleRNN / QLSTM / QGRU      kernel, recurrent, bias, state
  QScaleShift                    weight, bias
  QAveragePooling2D / QGlobalAveragePooling2D   average

Shapes are constructed, never rejected: kernel extents fit under `valid`
padding, dilation > 1 only with stride 1 (Keras' own constraint), depthwise
strides are square (TF's constraint), group counts divide both channel counts.

Other properties may reuse: `case_strategy`, `build_qlayer`, `build_stock`,
`weight_shapes`, `arrays`, `labels`.
"""
import numpy as np

F32 = np.float32

# --------------------------------------------------------------------------
# layer table

ROLES = {
    "QDense": ["kernel", "bias"],
    "QConv1D": ["kernel", "bias"],
    "QConv2D": ["kernel", "bias"],
    "QDepthwiseConv2D": ["depthwise", "bias"],
    "QSeparableConv1D": ["depthwise", "pointwise", "bias"],
    "QSeparableConv2D": ["depthwise", "pointwise", "bias"],
    "QSimpleRNN": ["kernel", "recurrent", "bias", "state"],
    "QLSTM": ["kernel", "recurrent", "bias", "state"],
    "QGRU": ["kernel", "recurrent", "bias", "state"],
    "QScaleShift": ["weight", "bias"],
    "QAveragePooling2D": ["average"],
    "QGlobalAveragePooling2D": ["average"],
}
STOCK = {
    "QDense": "Dense", "QConv1D": "Conv1D", "QConv2D": "Conv2D",
    "QDepthwiseConv2D": "DepthwiseConv2D",
    "QSeparableConv1D": "SeparableConv1D", "QSeparableConv2D": "SeparableConv2D",
    "QSimpleRNN": "SimpleRNN", "QLSTM": "LSTM", "QGRU": "GRU",
    "QAveragePooling2D": "AveragePooling2D",
    "QGlobalAveragePooling2D": "GlobalAveragePooling2D",
}
STOCK_CELL = {"QSimpleRNN": "SimpleRNNCell", "QLSTM": "LSTMCell",
              "QGRU": "GRUCell"}
FAMILY = {
    "QDense": "ff", "QConv1D": "ff", "QConv2D": "ff", "QDepthwiseConv2D": "ff",
    "QSeparableConv1D": "ff", "QSeparableConv2D": "ff", "QScaleShift": "ff",
    "QSimpleRNN": "rnn", "QLSTM": "rnn", "QGRU": "rnn",
    "QAveragePooling2D": "pool", "QGlobalAveragePooling2D": "pool",
}
WEIGHTLESS_ROLES = ("state", "average")
# QConv2DTranspose cannot be built in this image (array_ops.stack is gone in
# TF 2.21); it is excluded and the exclusion is counted by the property.
EXCLUDED_LAYERS = ["QConv2DTranspose"]


def qarg(role):
  return role + "_quantizer"


# --------------------------------------------------------------------------
# quantizer pools (strings, as users write them).  First entries are the
# simplest (Hypothesis shrinks towards them).

KERNEL_Q = [
    None,
    "quantized_bits(4,0,1,alpha=1.0)",       # data independent
    "quantized_bits(4,0,1)",                 # alpha=None -> constructor turns it into auto_po2
    "quantized_bits(6,2,1,alpha=1.0)",
    "quantized_bits(2,0,1,alpha=1.0)",
    "quantized_bits(3,1,0,alpha=1.0)",
    "quantized_bits(5,1)",
    "quantized_bits(4,0,1,alpha='auto')",
    "quantized_bits(5,1,1,alpha='auto_po2')",
    "quantized_bits(8,0,0,keep_negative=False,alpha=1.0)",
    "quantized_linear(4,0,1,alpha=1.0)",
    "quantized_linear(4,0,1)",
    "quantized_linear(5,1,alpha='auto')",
    "binary(alpha=1)",
    "binary()",
    "binary(alpha='auto')",
    "binary(use_01=True,alpha=1)",
    "ternary(alpha=1)",
    "ternary()",
    "ternary(alpha='auto')",
    "ternary(alpha=1,threshold=0.4)",
    "quantized_po2(4)",
    "quantized_po2(4,1)",
    "quantized_po2(3,max_value=2)",
    "quantized_relu_po2(4)",
    # not idempotent (q(q(w)) != q(w)): makes "applied once" observable
    "quantized_tanh(4)",
    "quantized_ulaw(4,0,1)",
]
BIAS_Q = [
    None,
    "quantized_bits(4,0,1)",
    "quantized_bits(6,2,1,alpha=1.0)",
    "quantized_bits(8,3,1)",
    "quantized_bits(3,0,0)",
    "quantized_bits(4,0,1,alpha='auto')",
    "quantized_linear(6,2,1)",
    "quantized_po2(4)",
    "quantized_po2(5,2)",
    "ternary(alpha=1)",
    "ternary()",
    "binary(alpha=1)",
    "quantized_tanh(5)",
    # data-dependent scale / threshold on a rank-1 weight
    "ternary(alpha='auto')",
    "binary(alpha='auto')",
    "quantized_bits(5,1,1,alpha='auto_po2')",
]
ACT_Q = [
    None,
    "quantized_relu(4,2)",
    "quantized_bits(6,2,1)",
    "quantized_relu(6,3,negative_slope=0.25)",
    "quantized_tanh(4)",
    "quantized_sigmoid(5)",
    "quantized_bits(8,3,1,alpha=1.0)",
    "quantized_relu(3,1,use_sigmoid=1)",
    "quantized_po2(4,4)",
    "quantized_relu_po2(4,4)",
    "binary(alpha=1)",
    "ternary(alpha=1)",
    "quantized_ulaw(6,2,1)",
    "quantized_hswish(6,2,1)",
    "hard_sigmoid",
    "binary_tanh",
    "relu",
]
STATE_Q = [
    None,
    "quantized_bits(4,0,1)",
    "quantized_bits(6,1,1,alpha=1.0)",
    "quantized_tanh(5)",
    "ternary(alpha=1)",
    "quantized_po2(4)",
]
RNN_ACT = [
    "quantized_tanh",            # the layers' default
    "quantized_tanh(5)",
    "quantized_bits(6,1,1)",
    "quantized_relu(4,2)",
    "tanh",
    None,
]
RNN_RACT = [
    "hard_sigmoid",              # the layers' default (qkeras' hard sigmoid)
    "quantized_sigmoid(5)",
    "smooth_sigmoid",
    "sigmoid",
    "binary_sigmoid",
]
# the averaging factor is a python scalar: only data-independent quantizers
# make sense there (the docstrings use quantized_bits)
AVG_Q = [
    None,
    "quantized_bits(8,0,1)",
    "quantized_bits(4,0,1)",
    "quantized_bits(6,0,1,alpha=1.0)",
    "quantized_bits(10,0,0,keep_negative=False)",
    "quantized_po2(4)",
    "quantized_po2(6,1)",
    "quantized_linear(8,0,1)",
]


# --------------------------------------------------------------------------
# shape model (independent of the library: used to size the drawn weights; the
# property asserts that the built layer owns exactly these shapes)


def _pair(v):
  return list(v) if isinstance(v, (list, tuple)) else [v, v]


def channels(case):
  kw, s = case["kw"], case["in_shape"]
  if kw.get("data_format") == "channels_first":
    return s[1]
  return s[-1]


def weight_shapes(case):
  """role -> shape for the roles that own a weight in this configuration."""
  lay, kw = case["layer"], case["kw"]
  cin = channels(case)
  out = {}
  if lay == "QDense":
    out["kernel"] = [cin, kw["units"]]
    nb = kw["units"]
  elif lay == "QConv1D":
    out["kernel"] = [kw["kernel_size"], cin // kw.get("groups", 1), kw["filters"]]
    nb = kw["filters"]
  elif lay == "QConv2D":
    out["kernel"] = _pair(kw["kernel_size"]) + [cin // kw.get("groups", 1),
                                                kw["filters"]]
    nb = kw["filters"]
  elif lay == "QDepthwiseConv2D":
    out["depthwise"] = _pair(kw["kernel_size"]) + [cin, kw["depth_multiplier"]]
    nb = cin * kw["depth_multiplier"]
  elif lay == "QSeparableConv1D":
    out["depthwise"] = [kw["kernel_size"], cin, kw["depth_multiplier"]]
    out["pointwise"] = [1, cin * kw["depth_multiplier"], kw["filters"]]
    nb = kw["filters"]
  elif lay == "QSeparableConv2D":
    out["depthwise"] = _pair(kw["kernel_size"]) + [cin, kw["depth_multiplier"]]
    out["pointwise"] = [1, 1, cin * kw["depth_multiplier"], kw["filters"]]
    nb = kw["filters"]
  elif lay in ("QSimpleRNN", "QLSTM", "QGRU"):
    g = {"QSimpleRNN": 1, "QLSTM": 4, "QGRU": 3}[lay]
    u = kw["units"]
    out["kernel"] = [cin, g * u]
    out["recurrent"] = [u, g * u]
    nb = [2, g * u] if (lay == "QGRU" and kw.get("reset_after")) else g * u
  elif lay == "QScaleShift":
    out["weight"] = [1, 1]
    nb = [1, 1]
  else:
    return out
  if kw.get("use_bias", True):
    out["bias"] = nb if isinstance(nb, list) else [nb]
  return out


def arrays(case):
  """(weights role->ndarray, x ndarray) as float32."""
  shp = weight_shapes(case)
  ws = {}
  for r, s in shp.items():
    ws[r] = np.asarray(case["w"][r], dtype=np.float64).astype(F32).reshape(s)
  x = np.asarray(case["x"], dtype=np.float64).astype(F32).reshape(
      case["in_shape"])
  return ws, x


def weight_roles(case):
  """Roles that own a weight, in weight order."""
  shp = weight_shapes(case)
  return [r for r in ROLES[case["layer"]] if r in shp]


# --------------------------------------------------------------------------
# builders


def _ctor_kwargs(case, stock):
  """Constructor kwargs without quantizers / activation."""
  kw = dict(case["kw"])
  for k, v in list(kw.items()):
    if isinstance(v, list):
      kw[k] = tuple(v)
  return kw


def build_qlayer(case):
  """Constructs the QKeras layer exactly as a user would (strings)."""
  import qkeras  # pylint: disable=g-import-not-at-top
  cls = getattr(qkeras, case["layer"])
  kw = _ctor_kwargs(case, stock=False)
  for role in ROLES[case["layer"]]:
    kw[qarg(role)] = case["q"].get(role)
  kw["activation"] = case.get("act")
  if case["layer"] in ("QLSTM", "QGRU"):
    kw["recurrent_activation"] = case.get("ract", "hard_sigmoid")
  if case.get("mask") is not None:
    kw["mask"] = np.asarray(case["mask"], dtype=F32)
  kw.update(case.get("qkw") or {})
  return cls(**kw)


def resolve_activation(s):
  """String -> callable the way the layer constructors document it."""
  if s is None:
    return None
  from qkeras.quantizers import get_quantizer  # pylint: disable=g-import-not-at-top
  return get_quantizer(s)


def build_stock(case, data_format=None, dtype=None):
  """The corresponding stock tf.keras layer, activation=None (feed-forward
  layers and pooling).  `data_format` overrides the case's (used for the
  transposed channels_first reference)."""
  import tensorflow as tf  # pylint: disable=g-import-not-at-top
  cls = getattr(tf.keras.layers, STOCK[case["layer"]])
  kw = _ctor_kwargs(case, stock=True)
  if data_format is not None:
    kw["data_format"] = data_format
  if dtype is not None:
    kw["dtype"] = dtype
  return cls(**kw)


def build_stock_rnn(case, act, ract, cell):
  import tensorflow as tf  # pylint: disable=g-import-not-at-top
  kw = case["kw"]
  lay = case["layer"]
  ckw = {"units": kw["units"], "activation": act,
         "use_bias": kw.get("use_bias", True)}
  if lay in ("QLSTM", "QGRU"):
    ckw["recurrent_activation"] = ract
    ckw["implementation"] = kw.get("implementation", 1)
  if lay == "QGRU":
    ckw["reset_after"] = kw.get("reset_after", False)
  if lay == "QLSTM" and "unit_forget_bias" in kw:
    ckw["unit_forget_bias"] = kw["unit_forget_bias"]
  for k in ("dropout", "recurrent_dropout"):
    if k in kw:
      ckw[k] = kw[k]
  if cell:
    return getattr(tf.keras.layers, STOCK_CELL[lay])(**ckw)
  ckw["return_sequences"] = kw.get("return_sequences", False)
  ckw["go_backwards"] = kw.get("go_backwards", False)
  ckw["unroll"] = kw.get("unroll", False)
  return getattr(tf.keras.layers, STOCK[lay])(**ckw)


# --------------------------------------------------------------------------
# labels


PLAIN_ACTS = ("tanh", "relu", "sigmoid", "softmax", "linear")


def distinct_quantizers(case):
  qs = [v for v in case["q"].values() if v is not None]
  if case.get("act") is not None and case["act"] not in PLAIN_ACTS:
    qs.append(case["act"])
  return len(set(qs))


def geometry_nontrivial(case):
  kw, lay = case["kw"], case["layer"]
  fam = FAMILY[lay]
  if lay in ("QConv1D", "QConv2D", "QDepthwiseConv2D", "QSeparableConv1D",
             "QSeparableConv2D", "QAveragePooling2D"):
    st = _pair(kw.get("strides") or kw.get("pool_size") or 1)
    if lay == "QAveragePooling2D":
      st = _pair(kw.get("strides") or kw["pool_size"])
    dl = _pair(kw.get("dilation_rate", 1))
    return (max(st) > 1 or max(dl) > 1 or
            str(kw.get("padding", "valid")).lower() != "valid")
  if fam == "rnn":
    return case["in_shape"][1] >= 2
  if lay == "QDense":
    return bool(kw.get("use_bias", True))
  return True


def labels(case):
  kw, lay = case["kw"], case["layer"]
  labs = [lay]
  pad = str(kw.get("padding", "")).lower()
  if pad:
    labs.append("pad:" + pad)
  if "strides" in kw and kw["strides"] is not None and max(_pair(kw["strides"])) > 1:
    labs.append("stride>1")
  if max(_pair(kw.get("dilation_rate", 1))) > 1:
    labs.append("dilation>1")
  if kw.get("groups", 1) > 1:
    labs.append("groups>1")
  if kw.get("depth_multiplier", 1) > 1:
    labs.append("depth_multiplier>1")
  if kw.get("data_format") == "channels_first":
    labs.append("channels_first")
  if "use_bias" in kw:
    labs.append("use_bias" if kw["use_bias"] else "no_bias")
  if case.get("act") is not None:
    labs.append("act")
  nq = sum(1 for v in case["q"].values() if v is not None)
  if nq == 0:
    labs.append("noquant_weights")
    if (case.get("act") is None or case["act"] in PLAIN_ACTS) and (
        case.get("ract") is None or case["ract"] in PLAIN_ACTS):
      labs.append("noquant")
  if distinct_quantizers(case) >= 2:
    labs.append("two_distinct_q")
  if FAMILY[lay] == "rnn":
    if lay != "QSimpleRNN":
      labs.append("impl%d" % kw.get("implementation", 1))
    for f in ("reset_after", "go_backwards", "return_sequences"):
      if kw.get(f):
        labs.append(f)
    if case["q"].get("state") is not None:
      labs.append("state_q")
  for r, v in case["q"].items():
    if v is not None:
      labs.append("q:" + r)
  if case.get("mask") is not None:
    flat = [v for row in case["mask"] for v in row]
    labs.append("mask")
    if any(v == 0 for v in flat):
      labs.append("mask:has_zero")
    if any(v not in (0, 1) for v in flat):
      labs.append("mask:non_binary")
  if case.get("qkw"):
    labs.append("deprecated_range_args")
  if kw.get("dropout") or kw.get("recurrent_dropout"):
    labs.append("dropout_inference")
  if kw.get("unroll"):
    labs.append("unroll")
  if str(kw.get("padding", "")).isupper():
    labs.append("pad_uppercase")
  if case.get("calls"):
    labs.append("multi_call")
    if any(c["in_shape"][1:] != case["in_shape"][1:] for c in case["calls"]):
      labs.append("multi_call:shape_changed")
  # classes that were broken before the fixes for C11-KF1..KF5
  if lay == "QSeparableConv1D" and pad == "causal":
    labs.append("sep1d_causal")
  if lay == "QGRU" and case["q"].get("recurrent") is None:
    labs.append("gru_no_recurrent_q")
    if channels(case) != kw["units"]:
      labs.append("gru_no_recurrent_q:dim!=units")
  if lay == "QGRU" and kw.get("reset_after") and kw.get("use_bias", True):
    labs.append("gru_reset_after_bias")
  if (lay == "QLSTM" and not kw.get("use_bias", True) and
      case["q"].get("bias") is not None):
    labs.append("lstm_nobias_bias_q")
  return labs


# --------------------------------------------------------------------------
# Hypothesis strategies


def _values(st, n, lo_hi, fine):
  """n float32 values: per tensor one of three families — a fine dyadic grid
  (off every quantizer grid used here, exact in float32), a coarse grid (on
  the grids / saturating), arbitrary float32."""
  a = lo_hi

  def grid(den, span):
    k = int(round(span * den))
    return st.lists(st.integers(-k, k), min_size=n, max_size=n).map(
        lambda ks: [float(F32(v / den)) for v in ks])

  flo = st.lists(st.floats(min_value=-a, max_value=a, width=32,
                           allow_nan=False, allow_infinity=False),
                 min_size=n, max_size=n).map(
                     lambda vs: [float(F32(v)) for v in vs])
  return st.one_of(grid(fine, a), grid(4.0, a), flo)


def desc_strategy(tier="quick", layers=None):
  """Strategy for case descriptions WITHOUT values (layer, kw, q, act,
  in_shape)."""
  from hypothesis import strategies as st  # pylint: disable=g-import-not-at-top
  big = tier != "quick"
  names = layers or list(ROLES)
  cmax = 5 if big else 4
  fmax = 5 if big else 4

  def rare(draw, n):
    """True about once in n+1 draws.  Hypothesis over-samples the end points
    of an integer range (and shrinks towards 0), so the rare branch sits on an
    interior value."""
    return draw(st.integers(0, n)) == n // 2 + 1

  def qdraw(draw, pool):
    # None about 1/4 of the time, otherwise uniform over the pool
    if draw(st.integers(0, 3)) == 0:
      return None
    return draw(st.sampled_from(pool[1:]))

  @st.composite
  def d(draw):
    lay = draw(st.sampled_from(names))
    kw, q = {}, {}
    case = {"layer": lay, "kw": kw, "q": q}
    b = draw(st.integers(1, 2))
    fam = FAMILY[lay]
    noquant = draw(st.integers(0, 11)) == 0     # the "no quantizers" clause

    if lay == "QDense":
      kw["units"] = draw(st.integers(1, fmax))
      kw["use_bias"] = draw(st.booleans())
      cin = draw(st.integers(1, cmax + 1))
      mid = draw(st.lists(st.integers(1, 3), min_size=0, max_size=2))
      case["in_shape"] = [b] + mid + [cin]
    elif lay in ("QConv1D", "QSeparableConv1D"):
      k = draw(st.integers(1, 3))
      s = draw(st.integers(1, 3))
      dl = draw(st.integers(1, 2)) if s == 1 else 1
      pad = draw(st.sampled_from(["valid", "same", "causal"]))
      cf = draw(st.integers(0, 4)) == 0 and pad != "causal"
      ext = (k - 1) * dl + 1
      length = ext + draw(st.integers(0, 4)) if pad == "valid" else draw(
          st.integers(2, 8))
      if lay == "QConv1D":
        g = draw(st.sampled_from([1, 1, 1, 2]))
        cin = g * draw(st.integers(1, 2 if g > 1 else cmax))
        kw["filters"] = g * draw(st.integers(1, 2 if g > 1 else fmax))
        if g > 1:
          kw["groups"] = g
      else:
        cin = draw(st.integers(1, cmax))
        kw["filters"] = draw(st.integers(1, fmax))
        kw["depth_multiplier"] = draw(st.integers(1, 2))
      kw.update(kernel_size=k, strides=s, padding=pad, dilation_rate=dl,
                use_bias=draw(st.booleans()))
      if cf:
        kw["data_format"] = "channels_first"
        case["in_shape"] = [b, cin, length]
      else:
        case["in_shape"] = [b, length, cin]
    elif lay in ("QConv2D", "QDepthwiseConv2D", "QSeparableConv2D"):
      ks = [draw(st.integers(1, 3)), draw(st.integers(1, 3))]
      if lay == "QConv2D":
        ss = [draw(st.integers(1, 3)), draw(st.integers(1, 3))]
      else:
        s = draw(st.integers(1, 3))
        ss = [s, s]                 # TF depthwise kernels need square strides
      if max(ss) == 1:
        dl = [draw(st.integers(1, 2)), draw(st.integers(1, 2))]
      else:
        dl = [1, 1]
      pad = draw(st.sampled_from(["valid", "same"]))
      cf = draw(st.integers(0, 4)) == 0
      hw = []
      for i in range(2):
        ext = (ks[i] - 1) * dl[i] + 1
        hw.append(ext + draw(st.integers(0, 3)) if pad == "valid" else draw(
            st.integers(2, 6)))
      if lay == "QConv2D":
        g = draw(st.sampled_from([1, 1, 1, 1, 2]))
        cin = g * draw(st.integers(1, 2 if g > 1 else cmax))
        kw["filters"] = g * draw(st.integers(1, 2 if g > 1 else fmax))
        if g > 1:
          kw["groups"] = g
      else:
        cin = draw(st.integers(1, cmax))
        kw["depth_multiplier"] = draw(st.integers(1, 2))
        if lay == "QSeparableConv2D":
          kw["filters"] = draw(st.integers(1, fmax))
      kw.update(kernel_size=ks, strides=ss, padding=pad, dilation_rate=dl,
                use_bias=draw(st.booleans()))
      if lay == "QDepthwiseConv2D" and draw(st.integers(0, 3)) == 3:
        kw["padding"] = pad.upper()   # the layer's own default is "VALID"
      if lay == "QConv2D" and draw(st.integers(0, 2)) == 2:
        # optional kernel mask (kh x kw): 0/1 with at least one zero when the
        # kernel has more than one tap; sometimes other dyadic factors (the
        # docstring only says "mask for kernel weights")
        n = ks[0] * ks[1]
        vals = [0.0, 1.0] if draw(st.integers(0, 3)) else [0.0, 1.0, 0.5, 2.0]
        m = draw(st.lists(st.sampled_from(vals), min_size=n, max_size=n))
        if n > 1 and 0.0 not in m:
          m[draw(st.integers(0, n - 1))] = 0.0
        case["mask"] = [m[i * ks[1]:(i + 1) * ks[1]] for i in range(ks[0])]
      if cf:
        kw["data_format"] = "channels_first"
        case["in_shape"] = [b, cin] + hw
      else:
        kw["data_format"] = "channels_last"
        case["in_shape"] = [b] + hw + [cin]
    elif fam == "rnn":
      kw["units"] = draw(st.integers(1, fmax))
      kw["use_bias"] = draw(st.booleans())
      kw["return_sequences"] = draw(st.booleans())
      kw["go_backwards"] = draw(st.booleans())
      if lay != "QSimpleRNN":
        kw["implementation"] = draw(st.sampled_from([1, 2]))
      if lay == "QGRU":
        kw["reset_after"] = draw(st.booleans())
      if draw(st.integers(0, 5)) == 5:
        # dropout must be the identity at inference
        kw["dropout"] = 0.25
        kw["recurrent_dropout"] = draw(st.sampled_from([0.0, 0.5]))
      if lay == "QLSTM":
        # only changes the bias initializer; weights are set explicitly, so
        # this checks that the option is accepted and does not alter the maths
        kw["unit_forget_bias"] = draw(st.booleans())
      t = draw(st.integers(1, 4))
      cin = draw(st.integers(1, cmax))
      case["in_shape"] = [b, t, cin]
    elif lay == "QScaleShift":
      kw["use_bias"] = draw(st.booleans())
      case["in_shape"] = [b] + draw(st.lists(st.integers(1, 4), min_size=1,
                                             max_size=3))
    elif lay == "QAveragePooling2D":
      ps = [draw(st.integers(1, 3)), draw(st.integers(1, 3))]
      ss = draw(st.one_of(st.none(), st.tuples(st.integers(1, 3),
                                               st.integers(1, 3)).map(list)))
      pad = draw(st.sampled_from(["valid", "same"]))
      hw = [ps[i] + draw(st.integers(0, 4)) for i in range(2)]
      cin = draw(st.integers(1, 3))
      # the stock CPU AvgPool kernel rejects NCHW: rare, only to count it
      cf = rare(draw, 11)
      kw.update(pool_size=ps, strides=ss, padding=pad,
                data_format="channels_first" if cf else "channels_last")
      case["in_shape"] = [b, cin] + hw if cf else [b] + hw + [cin]
    elif lay == "QGlobalAveragePooling2D":
      hw = [draw(st.integers(1, 5)), draw(st.integers(1, 5))]
      cin = draw(st.integers(1, 3))
      cf = draw(st.integers(0, 3)) == 0
      kw.update(data_format="channels_first" if cf else "channels_last",
                keepdims=draw(st.booleans()))
      case["in_shape"] = [b, cin] + hw if cf else [b] + hw + [cin]
    else:
      raise ValueError(lay)

    # quantizers
    for role in ROLES[lay]:
      if noquant:
        q[role] = None
      elif role == "bias":
        q[role] = qdraw(draw, BIAS_Q)
      elif role == "state":
        q[role] = draw(st.sampled_from(STATE_Q)) if draw(st.booleans()) else None
      elif role == "average":
        q[role] = qdraw(draw, AVG_Q)
      else:
        q[role] = qdraw(draw, KERNEL_Q)
    if fam == "rnn":
      case["act"] = "tanh" if noquant else draw(st.sampled_from(RNN_ACT))
      if lay != "QSimpleRNN":
        case["ract"] = "sigmoid" if noquant else draw(st.sampled_from(RNN_RACT))
    else:
      case["act"] = None if (noquant or draw(st.integers(0, 2)) == 0) else draw(
          st.sampled_from(ACT_Q[1:]))

    # deprecated QKeras-only arguments (documented to have no effect)
    if lay in RANGE_ARGS and draw(st.integers(0, 7)) == 7:
      case["qkw"] = {k: draw(st.sampled_from([1.0, 4.0])) for k in RANGE_ARGS[lay]}

    # further calls of the same layer instance on other admissible shapes
    ncalls = draw(st.sampled_from([0, 0, 0, 1, 2]))
    if ncalls:
      case["calls"] = [{"in_shape": vary_shape(draw, st, case)}
                       for _ in range(ncalls)]
    elif fam == "rnn" and draw(st.integers(0, 5)) == 5:
      kw["unroll"] = True          # needs a static number of time steps
    return case

  return d()


RANGE_ARGS = {
    "QDense": ["kernel_range", "bias_range"],
    "QConv1D": ["kernel_range", "bias_range"],
    "QConv2D": ["kernel_range", "bias_range"],
    "QDepthwiseConv2D": ["depthwise_range", "bias_range"],
}


def min_spatial(case):
  """Smallest admissible size per spatial axis for this layer configuration."""
  kw, lay = case["kw"], case["layer"]
  pad = str(kw.get("padding", "valid")).lower()
  if lay in ("QConv1D", "QSeparableConv1D"):
    ext = (kw["kernel_size"] - 1) * kw["dilation_rate"] + 1
    return [ext if pad == "valid" else 1]
  if lay in ("QConv2D", "QDepthwiseConv2D", "QSeparableConv2D"):
    return [((kw["kernel_size"][i] - 1) * kw["dilation_rate"][i] + 1)
            if pad == "valid" else 1 for i in range(2)]
  if lay == "QAveragePooling2D":
    return [kw["pool_size"][i] if pad == "valid" else 1 for i in range(2)]
  if lay == "QGlobalAveragePooling2D":
    return [1, 1]
  return []


def vary_shape(draw, st, case):
  """Another admissible input shape for the same built layer: batch, spatial
  sizes, sequence length and (dense / scale-shift) the free middle axes may
  change; the channel axis and the rank may not."""
  s = list(case["in_shape"])
  lay = case["layer"]
  out = list(s)
  out[0] = draw(st.integers(1, 3))
  ms = min_spatial(case)
  if ms:
    cf = case["kw"].get("data_format") == "channels_first"
    first = 2 if cf else 1
    for i, m in enumerate(ms):
      out[first + i] = m + draw(st.integers(0, 4))
  elif FAMILY[lay] == "rnn":
    out[1] = draw(st.integers(1, 5))
  elif lay == "QDense":
    for i in range(1, len(s) - 1):
      out[i] = draw(st.integers(1, 3))
  elif lay == "QScaleShift":
    for i in range(1, len(s)):
      out[i] = draw(st.integers(1, 4))
  return out


def case_strategy(tier="quick", layers=None):
  """Full cases: description + drawn weights + drawn input."""
  from hypothesis import strategies as st  # pylint: disable=g-import-not-at-top

  @st.composite
  def c(draw):
    case = draw(desc_strategy(tier, layers))
    case["w"] = {}
    for role, shp in weight_shapes(case).items():
      n = int(np.prod(shp))
      case["w"][role] = draw(_values(st, n, 2.5, 128.0))
    n = int(np.prod(case["in_shape"]))
    case["x"] = draw(_values(st, n, 4.0, 32.0))
    for call in case.get("calls", []):
      n = int(np.prod(call["in_shape"]))
      call["x"] = draw(_values(st, n, 4.0, 32.0))
    return case

  return c()


def fill_values(case, seed):
  """Deterministic values for hand-written descriptions (canonical sweep):
  the values are stored in the case, so the case stays a plain value."""
  rs = np.random.RandomState(seed)
  case = dict(case)
  case["w"] = {}
  for role, shp in weight_shapes(case).items():
    n = int(np.prod(shp))
    case["w"][role] = [float(F32(v) / 128.0) for v in rs.randint(-320, 321, n)]
  n = int(np.prod(case["in_shape"]))
  case["x"] = [float(F32(v) / 32.0) for v in rs.randint(-128, 129, n)]
  if case.get("calls"):
    calls = []
    for call in case["calls"]:
      n = int(np.prod(call["in_shape"]))
      calls.append({"in_shape": list(call["in_shape"]),
                    "x": [float(F32(v) / 32.0) for v in rs.randint(-128, 129, n)]})
    case["calls"] = calls
  return case
