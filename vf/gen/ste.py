"""C06 generators: option lattice over every quantizer class of
qkeras/quantizers.py, deterministic probe tensors, Hypothesis strategies.

A *case* is {"cfg": config, "shape": [...], "xs": [floats], "rs": [floats]}
(quantizer configuration, input tensor, cotangent); see vf/ref/ste.py for the
config format.  Everything is valid by construction (the constructors' asserts
and the documented option dependencies are respected: auto_po2-only options,
stochastic_ternary training needs alpha='auto*', ternary threshold only with a
non-string alpha, negative_slope a power of two, ...).
"""
import itertools

import numpy as np

from vf.ref import ste as R

F32 = np.float32

STE_OPTS = [(True, 1.0), (True, 0.3), (True, 0.0), (False, 1.0), (False, 0.3), (False, 0.0)]
R_CYCLE = [1.0, -2.0, 0.5, 3.0, -0.75, 1.5, -1.0, 0.25]
EXTREMES = [0.0, -0.0, 1e-30, -1e-30, 1e30, -1e30]


def _cfg(cls, kw, sigmoid="hard", phase=0, tf_seed=0):
  return {"cls": cls, "kw": kw, "sigmoid": sigmoid, "phase": phase, "tf_seed": tf_seed}


def _ste(kw, use_ste, f):
  kw = dict(kw)
  if not use_ste:
    kw["use_ste"] = False
  if f != 1.0:
    kw["qnoise_factor"] = f
  return kw


def lattice(tier):
  """Deterministic list of (cfg, layout) with layout in {"r1","r2","r3"}."""
  quick = tier == "quick"
  out = []

  def add(cfg, layouts=("r2",)):
    for l in layouts:
      out.append((cfg, l))

  # ---- quantized_bits
  structs = [(8, 0, True, 0), (4, 1, True, 1), (1, 0, True, 0), (3, 0, False, 0), (2, 2, True, 0)]
  if not quick:
    structs += [(16, 4, True, 0), (6, 3, True, 1), (1, 0, False, 0), (5, 5, False, 1)]
  for (b, i, kn, s), a, (ste, f) in itertools.product(
      structs, [None, 0.5, 2.0, "auto", "auto_po2"], STE_OPTS):
    kw = {"bits": b, "integer": i, "keep_negative": kn, "symmetric": s, "alpha": a}
    add(_cfg("quantized_bits", _ste(kw, ste, f)),
        ("r2", "r1") if isinstance(a, str) and f == 1.0 else ("r2",))
  for ste, f in STE_OPTS:
    add(_cfg("quantized_bits", _ste({"bits": 4, "integer": 0, "alpha": "auto", "scale_axis": 0}, ste, f)), ("r2", "r3"))
    add(_cfg("quantized_bits", _ste({"bits": 4, "integer": 1, "alpha": "auto_po2", "scale_axis": 0,
                                     "elements_per_scale": 2, "min_po2_exponent": -3,
                                     "max_po2_exponent": 1}, ste, f)), ("r2",))
    add(_cfg("quantized_bits", _ste({"bits": 4, "integer": 0, "alpha": "auto",
                                     "post_training_scale": [0.25]}, ste, f)))
    add(_cfg("quantized_bits", _ste({"bits": 4, "integer": 0, "use_variables": True}, ste, f)))
    add(_cfg("quantized_bits", _ste({"bits": 4, "integer": 0, "use_stochastic_rounding": True}, ste, f),
             phase=1, tf_seed=7))

  # ---- quantized_linear
  structs = [(8, 0, True, 1), (4, 1, True, 0), (1, 0, True, 1), (3, 0, False, 1), (2, 2, True, 1)]
  if not quick:
    structs += [(16, 4, True, 1), (6, 3, True, 0), (1, 1, False, 1), (5, 2, False, 0)]
  for (b, i, kn, s), a, f in itertools.product(
      structs, [None, 0.5, 1.7, [0.5, 2.0], "auto", "auto_po2"], [1.0, 0.3, 0.0]):
    kw = {"bits": b, "integer": i, "keep_negative": kn, "symmetric": s, "alpha": a}
    if f != 1.0:
      kw["qnoise_factor"] = f
    add(_cfg("quantized_linear", kw), ("r2", "r1") if a == "auto" else ("r2",))
  for f in [1.0, 0.3]:
    for a in ["auto", "auto_po2"]:
      add(_cfg("quantized_linear", {"bits": 4, "integer": 0, "alpha": a, "scale_axis": 0,
                                    "qnoise_factor": f}), ("r2", "r3"))
    add(_cfg("quantized_linear", {"bits": 4, "integer": 0, "use_variables": True, "qnoise_factor": f}))
    add(_cfg("quantized_linear", {"bits": 4, "integer": 0, "use_stochastic_rounding": True,
                                  "qnoise_factor": f}, phase=1, tf_seed=5))

  # ---- quantized_relu
  bi = [(4, 0), (8, 2), (3, 1)] + ([] if quick else [(6, 0), (2, 2), (12, 3)])
  for k, ((b, i), sl, mode, sg, (ste, f)) in enumerate(itertools.product(
      bi, [0.0, 0.25] if quick else [0.0, 0.25, 0.125], ["qclip", "upper", "unbounded"],
      [None, "hard", "real"], STE_OPTS)):
    if quick and sg is not None and (k + k // 6) % 3:
      continue                     # sigmoid variants: a rotating third of the STE options
    kw = {"bits": b, "integer": i}
    if sl:
      kw["negative_slope"] = sl
    if mode == "upper":
      kw["is_quantized_clip"] = False
      kw["relu_upper_bound"] = 2.0 ** i * 0.75
    elif mode == "unbounded":
      kw["is_quantized_clip"] = False
    if sg is not None:
      kw["use_sigmoid"] = 1
    add(_cfg("quantized_relu", _ste(kw, ste, f), sigmoid=sg or "hard"))
  for ste, f in STE_OPTS:
    add(_cfg("quantized_relu", _ste({"bits": 4, "integer": 1, "use_variables": True,
                                     "negative_slope": 0.5}, ste, f)))
    add(_cfg("quantized_relu", _ste({"bits": 4, "integer": 1, "use_stochastic_rounding": True}, ste, f),
             phase=1, tf_seed=3))
    # relu_upper_bound is ignored while is_quantized_clip is True (documented precedence)
    add(_cfg("quantized_relu", _ste({"bits": 4, "integer": 1, "relu_upper_bound": 0.5}, ste, f)))

  # ---- power-of-two
  for b, mv, rnd, quad, (ste, f) in itertools.product(
      [4] if quick else [2, 4, 6, 8], [None, 1.0, 4.0, 0.25], ["rnd", "floor"],
      [False, True], STE_OPTS):
    if quick and quad and rnd == "floor":
      continue
    kw = {"bits": b, "max_value": mv, "log2_rounding": rnd}
    if quad:
      kw["quadratic_approximation"] = True
    add(_cfg("quantized_po2", _ste(kw, ste, f)))
  for b, mv, sl, rnd, (ste, f) in itertools.product(
      [4] if quick else [2, 4, 8], [None, 1.0, 4.0, 0.25], [0, 0.25, 0.5], ["rnd", "floor"], STE_OPTS):
    if quick and (sl == 0.5 or (rnd == "floor" and mv not in (None, 1.0))):
      continue
    kw = {"bits": b, "max_value": mv, "negative_slope": sl, "log2_rounding": rnd}
    add(_cfg("quantized_relu_po2", _ste(kw, ste, f)))
  for ste, f in STE_OPTS:
    add(_cfg("quantized_po2", _ste({"bits": 4, "use_stochastic_rounding": True}, ste, f), phase=1, tf_seed=11))
    add(_cfg("quantized_relu_po2", _ste({"bits": 4, "use_stochastic_rounding": True,
                                         "negative_slope": 0.25}, ste, f), phase=1, tf_seed=13))
    add(_cfg("quantized_po2", _ste({"bits": 4, "use_variables": True}, ste, f)))

  # ---- binary / ternary and their stochastic variants
  for u01, a in itertools.product([False, True], [None, 0.5, 2.0, [0.5, 2.0], "auto", "auto_po2"]):
    add(_cfg("binary", {"use_01": u01, "alpha": a}), ("r2", "r1") if not isinstance(a, list) else ("r2",))
  add(_cfg("binary", {"alpha": "auto", "scale_axis": 0}), ("r2", "r3"))
  add(_cfg("binary", {"alpha": "auto_po2", "scale_axis": 0, "elements_per_scale": 2,
                      "min_po2_exponent": -2, "max_po2_exponent": 2}))
  # number_of_unrolls=0 with a data-dependent alpha raises UnboundLocalError in
  # ternary.__call__ (scale iteration never runs): a C04 matter, not generated
  for a, t, n in itertools.product([None, 0.5, 2.0, "auto", "auto_po2"], [None, 0.5], [5, 1, 2]):
    if isinstance(a, str) and t is not None:
      continue
    if not isinstance(a, str) and n != 5:
      continue
    add(_cfg("ternary", {"alpha": a, "threshold": t, "number_of_unrolls": n}),
        ("r2", "r1"))
  for a, n in itertools.product(["auto", "auto_po2"], [5, 1]):
    add(_cfg("ternary", {"alpha": a, "use_stochastic_rounding": True, "number_of_unrolls": n},
             phase=1, tf_seed=2), ("sr", "r3"))
  # binary with stochastic rounding: training phase only (the inference path
  # raises, C08-KF2); every alpha kind, use_01 both
  for u01, a in itertools.product([False, True], [None, 0.5, 2.0, [0.5, 2.0], "auto", "auto_po2"]):
    add(_cfg("binary", {"use_01": u01, "alpha": a, "use_stochastic_rounding": True},
             phase=1, tf_seed=29), ("sr", "srz", "srsub") if isinstance(a, list) else ("sr", "r3", "srz", "srsub"))
    # inference phase: plain binary (x is not rescaled), any rank, zero channels allowed
    add(_cfg("binary", {"use_01": u01, "alpha": a, "use_stochastic_rounding": True}, phase=0),
        ("r2", "srz") if isinstance(a, list) else ("r2", "r1", "srz"))
  for a, real, ph in itertools.product([None, 0.5, 2.0, "auto", "auto_po2"], [True, False], [0, 1]):
    add(_cfg("stochastic_binary", {"alpha": a, "use_real_sigmoid": real}, phase=ph, tf_seed=17))
  for a, real in itertools.product([None, 0.5, "auto", "auto_po2"], [True, False]):
    add(_cfg("stochastic_ternary", {"alpha": a, "use_real_sigmoid": real}, phase=0))
    if isinstance(a, str):
      add(_cfg("stochastic_ternary", {"alpha": a, "use_real_sigmoid": real}, phase=1, tf_seed=19))
  add(_cfg("stochastic_ternary", {"alpha": None, "threshold": 0.5}, phase=0))

  # ---- tanh / sigmoid
  for b, s, mode in itertools.product([1, 2, 3, 4, 8] if quick else [1, 2, 3, 4, 5, 6, 8, 10, 12],
                                      [False, True], ["hard", "smooth", "real", "own_real"]):
    for cls, own in (("quantized_tanh", "use_real_tanh"), ("quantized_sigmoid", "use_real_sigmoid")):
      kw = {"bits": b, "symmetric": s}
      if mode == "own_real":
        kw[own] = True
        add(_cfg(cls, kw))
      else:
        add(_cfg(cls, kw, sigmoid=mode))

  # ---- hswish
  for (b, i), (sh, ub), a, f in itertools.product(
      [(8, 3), (6, 2)], [(3, 6), (1, 4), (2, 2)], [None, 0.5, "auto", "auto_po2"], [1.0, 0.3, 0.0]):
    kw = {"bits": b, "integer": i, "relu_shift": sh, "relu_upper_bound": ub, "alpha": a}
    if f != 1.0:
      kw["qnoise_factor"] = f
    add(_cfg("quantized_hswish", kw))

  # ---- finite-only classes
  for b, i, s, mode in itertools.product([4, 8], [0, 1], [0, 1], ["hard", "smooth", "real"]):
    add(_cfg("quantized_ulaw", {"bits": b, "integer": i, "symmetric": s}, sigmoid=mode))
  add(_cfg("quantized_ulaw", {"bits": 6, "integer": 0, "u": 15.0}))
  for a, real, ph in itertools.product([None, 0.5, "auto", "auto_po2"], [True, False], [0, 1]):
    add(_cfg("bernoulli", {"alpha": a, "use_real_sigmoid": real}, phase=ph, tf_seed=23), ("r2", "r1"))
  # ---- post-construction mutation: _set_trainable_parameter() directly or via
  # QDense(kernel_quantizer=q), before / after a first call
  def mutated(cfg, mut, when):
    return dict(cfg, mutation=mut, when=when)
  mut_cfgs = []
  for u01 in (False, True):
    mut_cfgs.append(_cfg("binary", {"use_01": u01}))
  mut_cfgs.append(_cfg("binary", {"alpha": None, "use_stochastic_rounding": True}, phase=1, tf_seed=31))
  mut_cfgs.append(_cfg("ternary", {}))
  mut_cfgs.append(_cfg("ternary", {"alpha": None, "number_of_unrolls": 2}))
  for real, ph in itertools.product([True, False], [0, 1]):
    mut_cfgs.append(_cfg("stochastic_binary", {"use_real_sigmoid": real}, phase=ph, tf_seed=37))
    mut_cfgs.append(_cfg("stochastic_ternary", {"use_real_sigmoid": real}, phase=ph, tf_seed=41))
  mut_cfgs.append(_cfg("bernoulli", {}, phase=1, tf_seed=43))
  for (b, i, kn, s), (ste, f) in itertools.product(
      [(8, 0, True, 0), (4, 1, True, 1), (3, 0, False, 0)], [(True, 1.0), (False, 0.3)]):
    mut_cfgs.append(_cfg("quantized_bits", _ste({"bits": b, "integer": i, "keep_negative": kn,
                                                 "symmetric": s}, ste, f)))
  for (b, i, kn, s), f in itertools.product(
      [(8, 0, True, 1), (4, 1, True, 0), (1, 0, True, 1), (3, 0, False, 0)], [1.0, 0.3]):
    kw = {"bits": b, "integer": i, "keep_negative": kn, "symmetric": s}
    if f != 1.0:
      kw["qnoise_factor"] = f
    mut_cfgs.append(_cfg("quantized_linear", kw))
  for cfg in mut_cfgs:
    for mut, when in itertools.product(["trainable", "qdense"], ["before", "after"]):
      if cfg["cls"] == "stochastic_ternary" and cfg["phase"] == 1 and when == "after":
        continue     # a training-phase call with alpha=None is documented as invalid (assert)
      add(mutated(cfg, mut, when), ("sr",) if cfg["kw"].get("use_stochastic_rounding") else ("r2",))
  # controls: an explicit alpha is left alone by the mutation
  for cls, a in itertools.product(["binary", "ternary", "quantized_bits", "quantized_linear"],
                                  [0.5, "auto"]):
    for mut in ("trainable", "qdense"):
      add(mutated(_cfg(cls, {"alpha": a}), mut, "before"))

  # deterministic pseudo-random order: a run cut short by its time budget still
  # touches every class, and the workers' shares are balanced
  from vf import core  # pylint: disable=g-import-not-at-top
  out.sort(key=lambda t: core.jhash([t[0], t[1]]))
  return out


# ---------------------------------------------------------------------------
# deterministic probe tensors


def _span(cfg):
  kw = cfg["kw"]
  cls = cfg["cls"]
  if cls in ("quantized_bits", "quantized_linear", "quantized_relu", "quantized_hswish"):
    return 2.0 ** kw.get("integer", 0)
  if cls in ("quantized_po2", "quantized_relu_po2"):
    mv = kw.get("max_value", None)
    return 1.0 if mv is None else float(mv)
  return 1.0


def probe_points(cfg):
  """Points on both sides of every static kink (>= 1.5 margins away, and at
  fractions of a step), a spread over the range, zeros and extremes."""
  pts = []
  for loc, margin, step in R.static_kinks(cfg):
    for sgn in (-1.0, 1.0):
      for off in (1.5 * margin, 6 * margin, 0.2 * step, 0.49 * step, 0.51 * step, 1.3 * step, 3.7 * step):
        if off >= 1.5 * margin:
          pts.append(loc + sgn * off)
  sp = _span(cfg)
  for t in (0.04, 0.3, 0.6, 0.93, 1.1, 2.5, 6.0):
    pts += [t * sp, -t * sp]
  pts += EXTREMES
  return pts


SR_SMALL = [0.04, -0.3, 0.6, -0.93, 0.5, 0.0, -0.11, 0.77, 0.25, -0.0, 1e-30, -0.62]
SR_LARGE = [1.1, -2.5, 6.0, -0.04, 0.3, 0.0, -1.0, 3.3, 0.93, -0.6, 1e30, -1e-30]


SR_ZERO = [0.0, -0.0, 0.0, 0.0, -0.0, 0.0]
SR_SUBNORMAL = [1e-45, -1e-45, 1e-40, 0.0, -3e-39, 1e-45]
SR_OTHER = [0.3, -2.5, 0.6, -0.04, 1.1, 0.0]


def probe(cfg, layout, channels=None):
  if layout in ("srz", "srsub"):
    # channel 0 all zero / all subnormal (flushed to zero by TF), channel 1 ordinary
    col0 = SR_ZERO if layout == "srz" else SR_SUBNORMAL
    xs = np.asarray([v for pair in zip(col0, SR_OTHER) for v in pair], dtype=F32)
    rs = [R_CYCLE[(3 * j + j // 5) % len(R_CYCLE)] for j in range(len(xs))]
    return {"cfg": cfg, "shape": [len(col0), 2], "xs": [float(v) for v in xs], "rs": rs}
  raw = cfg
  cfg = R.effective(cfg)       # kinks / channels of the configuration after the mutation
  case = _probe(cfg, layout, channels)
  case["cfg"] = raw
  return case


def _probe(cfg, layout, channels=None):
  if layout == "sr":
    # two channels: one with max|x| <= 1 (the rounding scale f follows the
    # data), one with max|x| > 1 (f = 2); no all-zero channel
    xs = np.asarray([v for pair in zip(SR_SMALL, SR_LARGE) for v in pair], dtype=F32)
    rs = [R_CYCLE[(3 * j + j // 5) % len(R_CYCLE)] for j in range(len(xs))]
    return {"cfg": cfg, "shape": [len(SR_SMALL), 2], "xs": [float(v) for v in xs], "rs": rs}
  pts = probe_points(cfg)
  a = cfg["kw"].get("alpha", None)
  c = len(a) if isinstance(a, list) else (channels or (3 if layout == "r3" else 2))
  if layout == "r1":
    if isinstance(a, list):
      layout = "r2"
    else:
      xs = np.asarray(pts, dtype=F32)
      shape = [len(xs)]
  if layout == "r2":
    n = -(-len(pts) // c)
    n += n % 2                      # even, so elements_per_scale=2 divides axis 0
    pts = pts + [0.37 * _span(cfg)] * (n * c - len(pts))
    xs = np.asarray(pts, dtype=F32)
    shape = [n, c]
  elif layout == "r3":
    k = 2 * c
    n = -(-len(pts) // k)
    pts = pts + [0.37 * _span(cfg)] * (n * k - len(pts))
    xs = np.asarray(pts, dtype=F32)
    shape = [2, n, c]
  rs = [R_CYCLE[(3 * j + j // 5) % len(R_CYCLE)] for j in range(len(xs))]
  return {"cfg": cfg, "shape": shape, "xs": [float(v) for v in xs], "rs": rs}


# ---------------------------------------------------------------------------
# Hypothesis strategies


def case_strategy(tier):
  from hypothesis import strategies as st  # pylint: disable=g-import-not-at-top

  quick = tier == "quick"
  po2 = [0.5, 0.25, 0.125, 0.0625]
  consts = [0.5, 2.0, 1.0, 0.3, 1.7, 4.0, 0.125]
  fvals = st.sampled_from([1.0, 0.3, 0.0, 0.5, 0.9, 0.05])

  @st.composite
  def case(draw):
    cls = draw(st.sampled_from([
        "quantized_bits", "quantized_linear", "quantized_linear", "quantized_relu", "quantized_relu",
        "quantized_po2", "quantized_relu_po2", "binary", "ternary", "stochastic_binary",
        "stochastic_ternary", "quantized_tanh", "quantized_sigmoid", "quantized_hswish",
        "quantized_ulaw", "bernoulli"]))
    rank = draw(st.sampled_from([1, 2, 2, 3, 4]))
    shape = [draw(st.integers(1, 4)) for _ in range(rank)]
    while int(np.prod(shape)) > 48:
      shape[int(np.argmax(shape))] -= 1
    ch = shape[-1]
    sigmoid, phase, seed = "hard", 0, 0
    kw = {}

    def alpha(kinds):
      k = draw(st.sampled_from(kinds))
      if k == "none":
        return None
      if k == "const":
        return draw(st.sampled_from(consts))
      if k == "list":
        return [draw(st.sampled_from(consts)) for _ in range(ch)]
      return k

    def ste_opts(has_ste=True):
      f = draw(fvals)
      if f != 1.0:
        kw["qnoise_factor"] = f
      if has_ste and draw(st.booleans()):
        kw["use_ste"] = False
      if draw(st.integers(0, 5)) == 0:
        kw["use_variables"] = True

    def scale_opts(po2_only_extras):
      if rank >= 2 and draw(st.booleans()):
        ax = draw(st.integers(0, rank - 1))
        kw["scale_axis"] = ax
        if po2_only_extras and kw.get("alpha") == "auto_po2" and draw(st.booleans()):
          n = shape[ax]
          kw["elements_per_scale"] = draw(st.sampled_from([d for d in range(1, n + 1) if n % d == 0]))
      if po2_only_extras and kw.get("alpha") == "auto_po2" and draw(st.booleans()):
        kw["min_po2_exponent"] = draw(st.integers(-6, 0))
        kw["max_po2_exponent"] = draw(st.integers(0, 4))

    if cls in ("quantized_bits", "quantized_linear"):
      kn = draw(st.booleans())
      b = draw(st.integers(1, 8 if quick else 16))
      i = draw(st.integers(0, 4))
      kw.update(bits=b, integer=i, keep_negative=kn, symmetric=draw(st.sampled_from([0, 1])))
      if cls == "quantized_bits":
        kw["alpha"] = alpha(["none", "const", "auto", "auto_po2"])
        scale_opts(True) if isinstance(kw["alpha"], str) else None
        ste_opts()
      else:
        kw["alpha"] = alpha(["none", "const", "list", "auto", "auto", "auto_po2"])
        if isinstance(kw["alpha"], str) and rank >= 2 and draw(st.booleans()):
          kw["scale_axis"] = draw(st.integers(0, rank - 1))
        ste_opts(False)
      if draw(st.integers(0, 7)) == 0:
        kw["use_stochastic_rounding"] = True
        phase, seed = 1, draw(st.integers(0, 99))
    elif cls == "quantized_relu":
      b = draw(st.integers(2, 8 if quick else 12))
      i = draw(st.integers(0, 3))
      kw.update(bits=b, integer=i)
      if draw(st.booleans()):
        kw["negative_slope"] = draw(st.sampled_from(po2))
      m = draw(st.sampled_from(["qclip", "upper", "unbounded", "qclip+upper"]))
      if m in ("upper", "qclip+upper"):
        kw["relu_upper_bound"] = draw(st.sampled_from([0.5, 0.75, 1.0, 1.5, 3.0, 6.0]))
      if m in ("upper", "unbounded"):
        kw["is_quantized_clip"] = False
      if draw(st.integers(0, 2)) == 0:
        kw["use_sigmoid"] = 1
        sigmoid = draw(st.sampled_from(["hard", "smooth", "real"]))
      ste_opts()
      if draw(st.integers(0, 7)) == 0:
        kw["use_stochastic_rounding"] = True
        phase, seed = 1, draw(st.integers(0, 99))
    elif cls in ("quantized_po2", "quantized_relu_po2"):
      kw.update(bits=draw(st.integers(2, 8)),
                max_value=draw(st.sampled_from([None, None, 1.0, 4.0, 0.25, 2.0, 0.5])),
                log2_rounding=draw(st.sampled_from(["rnd", "floor"])))
      if draw(st.integers(0, 3)) == 0:
        kw["quadratic_approximation"] = True
      if cls == "quantized_relu_po2" and draw(st.booleans()):
        kw["negative_slope"] = draw(st.sampled_from(po2))
      ste_opts()
      if draw(st.integers(0, 7)) == 0:
        kw["use_stochastic_rounding"] = True
        phase, seed = 1, draw(st.integers(0, 99))
    elif cls == "binary":
      kw["alpha"] = alpha(["none", "const", "list", "auto", "auto_po2"])
      kw["use_01"] = draw(st.booleans())
      if draw(st.integers(0, 2)) == 0:
        kw["use_stochastic_rounding"] = True
        # training phase needs rank >= 2 (per-channel rounding scale)
        phase = draw(st.sampled_from([0, 1])) if rank >= 2 else 0
        seed = draw(st.integers(0, 99))
      elif isinstance(kw["alpha"], str):
        scale_opts(True)
    elif cls == "ternary":
      kw["alpha"] = alpha(["none", "const", "list", "auto", "auto_po2"])
      if isinstance(kw["alpha"], str):
        kw["number_of_unrolls"] = draw(st.sampled_from([5, 1, 2, 3]))
        if rank >= 2 and draw(st.integers(0, 2)) == 0:
          kw["use_stochastic_rounding"] = True
          phase, seed = 1, draw(st.integers(0, 99))
      elif draw(st.booleans()):
        kw["threshold"] = draw(st.sampled_from([0.1, 0.33, 0.5, 0.9]))
    elif cls == "stochastic_binary":
      kw["alpha"] = alpha(["none", "const", "auto", "auto_po2"])
      kw["use_real_sigmoid"] = draw(st.booleans())
      kw["temperature"] = draw(st.sampled_from([6.0, 1.0]))
      phase, seed = draw(st.sampled_from([0, 1])), draw(st.integers(0, 99))
      sigmoid = draw(st.sampled_from(["hard", "smooth", "real"]))
    elif cls == "stochastic_ternary":
      phase, seed = draw(st.sampled_from([0, 1])), draw(st.integers(0, 99))
      kw["alpha"] = alpha(["auto", "auto_po2"] if phase else ["none", "const", "auto", "auto_po2"])
      kw["use_real_sigmoid"] = draw(st.booleans())
      if not isinstance(kw["alpha"], str) and draw(st.booleans()):
        kw["threshold"] = draw(st.sampled_from([0.1, 0.5, 0.9]))
      sigmoid = draw(st.sampled_from(["hard", "smooth", "real"]))
    elif cls in ("quantized_tanh", "quantized_sigmoid"):
      kw.update(bits=draw(st.integers(1, 8 if quick else 12)), symmetric=draw(st.booleans()))
      mode = draw(st.sampled_from(["hard", "smooth", "real", "own_real"]))
      if mode == "own_real":
        kw["use_real_tanh" if cls == "quantized_tanh" else "use_real_sigmoid"] = True
      else:
        sigmoid = mode
    elif cls == "quantized_hswish":
      kw.update(bits=draw(st.integers(4, 8)), integer=draw(st.integers(1, 3)),
                symmetric=draw(st.sampled_from([0, 1])),
                relu_shift=draw(st.integers(1, 4)), relu_upper_bound=draw(st.integers(1, 8)))
      kw["alpha"] = alpha(["none", "const", "auto", "auto_po2"])
      ste_opts(False)
    elif cls == "quantized_ulaw":
      kw.update(bits=draw(st.integers(2, 8)), integer=draw(st.integers(0, 2)),
                symmetric=draw(st.sampled_from([0, 1])), u=draw(st.sampled_from([255.0, 15.0])))
      sigmoid = draw(st.sampled_from(["hard", "smooth", "real"]))
    elif cls == "bernoulli":
      kw["alpha"] = alpha(["none", "const", "auto", "auto_po2"])
      kw["use_real_sigmoid"] = draw(st.booleans())
      phase, seed = draw(st.sampled_from([0, 1])), draw(st.integers(0, 99))
    cfg = _cfg(cls, kw, sigmoid, phase, seed)
    if cls in R.TRAINABLE and draw(st.integers(0, 3)) == 0 and not (
        cls in ("ternary", "stochastic_ternary") and kw.get("alpha") is None
        and kw.get("threshold") is not None):
      cfg["mutation"] = draw(st.sampled_from(["trainable", "qdense"]))
      cfg["when"] = draw(st.sampled_from(["before", "after"]))
      # QDense.__init__ derives a weight constraint from quantizer.max(), which
      # does not accept a per-channel alpha array, nor the per-channel scale a
      # quantized_linear(alpha='auto*') carries after a first call (ValueError
      # "truth value of an array"): layer-construction matters, not generated
      if isinstance(kw.get("alpha"), list):
        cfg["mutation"] = "trainable"
      if cls == "quantized_linear" and isinstance(kw.get("alpha"), str):
        cfg["when"] = "before"

    # ---- tensor: mixture of points placed around the static kinks, a spread
    # over the range, and (rarely) zeros / extremes
    ecfg = R.effective(cfg)
    kinks = R.static_kinks(ecfg)
    sp = _span(ecfg)
    n = int(np.prod(shape))
    spread = st.floats(min_value=-4.0, max_value=4.0, width=32, allow_nan=False).map(lambda t: t * sp)
    parts = [spread, spread]
    if kinks:
      def around(t):
        (loc, margin, step), sgn, o, big = t
        off = max(1.5 * margin, o * step) if big else margin * (1.5 + 30 * o)
        return loc + sgn * off
      parts += [st.tuples(st.sampled_from(kinks), st.sampled_from([-1.0, 1.0]),
                          st.sampled_from([0.01, 0.2, 0.49, 0.51, 0.9, 1.3, 3.7]),
                          st.booleans()).map(around)] * 2
    elem = st.one_of(parts + [st.sampled_from(EXTREMES)] if draw(st.integers(0, 3)) == 0 else parts)
    xs = [float(F32(v)) for v in draw(st.lists(elem, min_size=n, max_size=n))]
    if kw.get("use_stochastic_rounding") and cls in ("binary", "ternary") and phase == 1:
      # every channel (last axis) contains a normal non-zero element; all-zero /
      # all-subnormal channels (C06-KF3, C08-KF3: NaN) only come from the lattice
      for c in range(ch):
        if not any(abs(xs[j]) >= 1.1754944e-38 for j in range(c, n, ch)):
          xs[c] = 0.375
    rs = draw(st.lists(st.sampled_from([1.0, -1.0, 2.0, 0.5, -0.75, 3.0, 1.5, -0.25]),
                       min_size=n, max_size=n))
    return {"cfg": cfg, "shape": shape, "xs": xs, "rs": rs}

  return case()


# ---------------------------------------------------------------------------
# building


def build(cfg):
  from qkeras import quantizers as Q  # pylint: disable=g-import-not-at-top
  Q.set_internal_sigmoid(cfg.get("sigmoid", "hard"))
  kw = dict(cfg["kw"])
  for k in ("alpha", "post_training_scale"):
    if isinstance(kw.get(k), list):
      kw[k] = np.asarray(kw[k], dtype=np.float32)
  return getattr(Q, cfg["cls"])(**kw)
