"""Generators shared by C04 (binary / ternary) and C05 (auto-scaled fixed
point): tensor layouts (shape + scale_axis + elements_per_scale, divisible by
construction), tensors with adversarial channels/groups, quantizer configs.

A case is {"cfg": {"cls", "kw"}, "shape": [...], "xs": [float, ...],
           optional "meta": {...}} - JSON only; floats are float32 values.
"""
import numpy as np

from vf.ref import scale as R

F32 = np.float32
MAX_ELEMS = 96
DIM_MAX = 4


def configure(tier):
  """thorough: larger tensors (<= 256 elements, plain axes up to 6)."""
  global MAX_ELEMS, DIM_MAX
  if tier == "thorough":
    MAX_ELEMS, DIM_MAX = 256, 6
  else:
    MAX_ELEMS, DIM_MAX = 96, 4
ELEMWISE_MAX = 12
TINY = 1e-30    # smaller magnitudes are generated as exact zeros (TF kernels
                # flush subnormals, e.g. 1.2e-38/(1+1e-7), to zero)


def _st():
  from hypothesis import strategies as st  # pylint: disable=g-import-not-at-top
  return st


# ---------------------------------------------------------------------------
# layouts


def layout(draw, axis_modes=("none", "int", "list"), allow_eps=True,
           min_rank=1, max_rank=4):
  """Draws {"shape", "scale_axis", "elements_per_scale"}; every
  elements_per_scale divides its axis by construction; scale_axis lists are
  ascending; elements_per_scale is only drawn with an explicit scale_axis and
  never for rank 1 (the library ignores both there)."""
  st = _st()
  rank = draw(st.integers(min_rank, max_rank))
  mode = draw(st.sampled_from(list(axis_modes))) if rank > 1 else draw(
      st.sampled_from([m for m in axis_modes if m != "list"] or ["none"]))
  shape = [draw(st.integers(1, DIM_MAX)) for _ in range(rank)]
  if rank >= 1 and draw(st.booleans()):
    shape[-1] = draw(st.integers(2, 8))
  scale_axis, eps = None, None
  axes = [rank - 1]
  if mode == "int":
    scale_axis = draw(st.integers(0, rank - 1))
    axes = [scale_axis]
  elif mode == "list":
    k = draw(st.integers(1, rank))
    axes = sorted(draw(st.permutations(list(range(rank))))[:k])
    scale_axis = list(axes)
  if allow_eps and scale_axis is not None and rank > 1 and draw(st.booleans()):
    if isinstance(scale_axis, list) and draw(st.booleans()):
      eps = [draw(st.sampled_from([1, 2, 3, 4])) for _ in axes]
      for a, e in zip(axes, eps):
        shape[a] = e * draw(st.integers(1, 3))
    else:
      e = draw(st.sampled_from([1, 2, 2, 3, 4]))
      eps = e
      for a in axes:
        shape[a] = e * draw(st.integers(1, 3))
  # keep the tensor small: shrink axes that do not carry scales first
  def total():
    return int(np.prod(shape))
  order = [a for a in range(rank) if a not in axes] + list(axes)
  for a in order:
    while total() > MAX_ELEMS and shape[a] > 1:
      if a in axes and eps is not None:
        e = eps[axes.index(a)] if isinstance(eps, list) else eps
        if shape[a] // e <= 1:
          break
        shape[a] -= e
      else:
        shape[a] -= 1
  return {"shape": shape, "scale_axis": scale_axis, "elements_per_scale": eps}


# ---------------------------------------------------------------------------
# tensors


GROUP_KINDS = ["normal", "normal", "normal", "normal", "zero", "single",
               "const", "pos", "neg", "small", "large"]


def _mant(st):
  return st.one_of(
      st.floats(min_value=-1.0, max_value=1.0, width=32, allow_nan=False,
                allow_subnormal=False),
      st.floats(min_value=-1.0, max_value=1.0, width=32, allow_nan=False,
                allow_subnormal=False),
      st.sampled_from([0.0, -0.0, 1.0, -1.0, 0.5, -0.5, 0.75, -0.25, 0.125]))


def grouped_tensor(draw, shape, gid, e_lo=-14, e_hi=14, spread=6,
                   kinds=None, allow_zero=True):
  """float32 tensor (list of python floats, C order).  Every group gets a kind
  and a power-of-two magnitude 2^(E+off); every non-zero group holds an anchor
  element with |mantissa| in [0.5, 1], so its maximum lies in
  [2^(E+off-1), 2^(E+off)] - i.e. inside [2^-21, 2^20] ~ [5e-7, 1e6]."""
  st = _st()
  n = int(np.prod(shape))
  ng = R.n_groups(gid)
  E = draw(st.integers(e_lo, e_hi))
  kinds = list(kinds or GROUP_KINDS)
  if not allow_zero:
    kinds = [k for k in kinds if k != "zero"]
  flat = gid.reshape(-1)
  members = {}
  for i, g in enumerate(flat):
    members.setdefault(int(g), []).append(i)
  lim = min(2, spread)
  if n <= ELEMWISE_MAX:
    gk = [draw(st.sampled_from(kinds)) for _ in range(ng)]
    joff = [draw(st.integers(-lim, lim)) for _ in range(ng)]
    mants = draw(st.lists(_mant(st), min_size=n, max_size=n))
    anchors = [draw(st.floats(min_value=0.5, max_value=1.0, width=32)) *
               draw(st.sampled_from([1.0, -1.0])) for _ in range(ng)]
    first = {g: idx[draw(st.integers(0, len(idx) - 1))]
             for g, idx in sorted(members.items())}
  else:
    # large tensors: all per-element / per-group detail comes from a numpy
    # generator whose seed is drawn (the resulting values are stored in the
    # case, so a replay does not depend on numpy's generator)
    rs = np.random.RandomState(draw(st.integers(0, 2 ** 31 - 1)))
    gk = [kinds[j] for j in rs.randint(0, len(kinds), size=ng)]
    joff = rs.randint(-lim, lim + 1, size=ng).tolist()
    mants = rs.uniform(-1.0, 1.0, size=n).astype(F32)
    sp = np.asarray([0.0, -0.0, 1.0, -1.0, 0.5, -0.5, 0.75, -0.25, 0.125],
                    dtype=F32)
    pick = rs.uniform(size=n) < 0.12
    mants = np.where(pick, sp[rs.randint(0, len(sp), size=n)], mants).tolist()
    anchors = (rs.uniform(0.5, 1.0, size=ng).astype(F32) *
               rs.choice([1.0, -1.0], size=ng)).tolist()
    first = {g: idx[int(rs.randint(0, len(idx)))]
             for g, idx in sorted(members.items())}
  offs = [(-spread if k == "small" else spread if k == "large" else j)
          for k, j in zip(gk, joff)]
  xs = [0.0] * n
  for i in range(n):
    g = int(flat[i])
    k = gk[g]
    sc = 2.0 ** (E + offs[g])
    a = anchors[g]
    m = float(F32(mants[i]))
    if k == "zero":
      v = 0.0 if m >= 0 else -0.0
    elif k == "single":
      v = a * sc if i == first[g] else 0.0
    elif k == "const":
      v = a * sc
    elif k == "pos":
      v = (abs(a) if i == first[g] else abs(m)) * sc
    elif k == "neg":
      v = -(abs(a) if i == first[g] else abs(m)) * sc
    else:
      v = (a if i == first[g] else m) * sc
    v = float(F32(v))
    if abs(v) < TINY:
      v = 0.0 if v >= 0 else -0.0
    xs[i] = v
  return xs, {"E": E, "kinds": gk}


def to_array(case):
  return np.asarray(case["xs"], dtype=F32).reshape(case["shape"])


# ---------------------------------------------------------------------------
# building / calling the code under test


def build(cfg):
  from qkeras import quantizers as Q  # pylint: disable=g-import-not-at-top
  kw = dict(cfg["kw"])
  if kw.get("post_training_scale") is not None:
    kw["post_training_scale"] = np.asarray(kw["post_training_scale"],
                                           dtype=np.float32)
  return getattr(Q, cfg["cls"])(**kw)


def call(q, x, phase=0, seed=None):
  """One call.  phase = Keras learning phase during the call (always restored
  to 0); seed (drawn, stored in the case) is given to tf.random.set_seed
  immediately before the call, so stochastic rounding is reproducible."""
  import tensorflow as tf  # pylint: disable=g-import-not-at-top
  xt = tf.constant(np.asarray(x, dtype=F32))
  if not phase and seed is None:
    return np.asarray(q(xt).numpy(), dtype=F32)
  K = tf.keras.backend
  K.set_learning_phase(int(phase))
  try:
    if seed is not None:
      tf.random.set_seed(int(seed))
    return np.asarray(q(xt).numpy(), dtype=F32)
  finally:
    K.set_learning_phase(0)


def scale_of(q):
  """q.scale as float64 ndarray (None -> None)."""
  s = getattr(q, "scale", None)
  if s is None:
    return None
  if hasattr(s, "numpy"):
    s = s.numpy()
  return np.asarray(s, dtype=np.float64)


def alpha_kind(a):
  if a is None:
    return "none"
  if isinstance(a, str):
    return a
  return "const"


def axis_kind(kw):
  sa = kw.get("scale_axis")
  k = "axis_none" if sa is None else ("axis_list" if isinstance(sa, list)
                                      else "axis_int")
  return k


# ---------------------------------------------------------------------------
# C04 cases


TERNARY_THRESHOLDS = [None, 0.1, 0.25, 0.33, 0.5, 0.75, 0.9]
CONST_ALPHAS = [0.5, 1.0, 2.0]


def c04_case():
  st = _st()

  @st.composite
  def s(draw):
    cls = draw(st.sampled_from(["binary", "binary", "ternary"]))
    kw = {}
    if cls == "binary":
      alpha = draw(st.sampled_from([None, 0.5, 1.0, 2.0, "auto", "auto",
                                    "auto_po2", "auto_po2"]))
      kw["alpha"] = alpha
      kw["use_01"] = draw(st.booleans())
      if draw(st.integers(0, 3)) == 0:
        # inference phase only (learning phase 0): documented to behave as the
        # deterministic sign; the training phase belongs to C08
        kw["use_stochastic_rounding"] = True
      if isinstance(alpha, str):
        lay = layout(draw)
        if lay["scale_axis"] is not None:
          kw["scale_axis"] = lay["scale_axis"]
        if lay["elements_per_scale"] is not None:
          kw["elements_per_scale"] = lay["elements_per_scale"]
      else:
        lay = layout(draw, axis_modes=("none",), allow_eps=False)
      shape = lay["shape"]
      gid = R.group_ids(shape, kw.get("scale_axis"),
                        kw.get("elements_per_scale"))
      if isinstance(alpha, str):
        xs, info = grouped_tensor(draw, shape, gid)
        if alpha == "auto_po2" and draw(st.booleans()):
          lo = info["E"] + draw(st.integers(-6, 3))
          hi = lo + draw(st.integers(0, 6))
          which = draw(st.sampled_from(["both", "min", "max"]))
          if which in ("both", "min"):
            kw["min_po2_exponent"] = lo
          if which in ("both", "max"):
            kw["max_po2_exponent"] = hi
      else:
        # constant / no scale: values around 1 plus large and tiny ones; all
        # below 2^21 so that x + (xq - x) is exact for alpha >= 0.5
        xs, info = grouped_tensor(draw, shape, gid, e_lo=-4, e_hi=4,
                                  spread=draw(st.sampled_from([2, 8, 16])))
    else:
      alpha = draw(st.sampled_from([None, 0.5, 1.0, 2.0, "auto", "auto",
                                    "auto_po2", "auto_po2"]))
      kw["alpha"] = alpha
      lay = layout(draw, axis_modes=("none",), allow_eps=False)
      shape = lay["shape"]
      gid = R.group_ids(shape, None, None)
      if isinstance(alpha, str):
        kw["number_of_unrolls"] = draw(st.sampled_from([1, 2, 3, 5, 5, 5, 4]))
        if draw(st.integers(0, 3)) == 0:
          kw["use_stochastic_rounding"] = True     # inference phase only
        xs, info = grouped_tensor(draw, shape, gid)
      else:
        thr = draw(st.sampled_from(TERNARY_THRESHOLDS))
        if thr is not None:
          kw["threshold"] = thr
        t = float(F32(0.33 if thr is None else thr))
        n = int(np.prod(shape))
        near = st.builds(
            lambda sg, d: sg * float(np.nextafter(F32(t), F32(d))),
            st.sampled_from([1.0, -1.0]),
            st.sampled_from([-np.inf, np.inf, t]))
        elem = st.one_of(
            near,
            st.floats(min_value=-1.5, max_value=1.5, width=32,
                      allow_subnormal=False),
            st.floats(min_value=-float(F32(2.0 ** 20)),
                      max_value=float(F32(2.0 ** 20)), width=32,
                      allow_subnormal=False),
            st.sampled_from([0.0, -0.0, 1e-30, -1e-30, 1e-6, -1e-6]))
        xs = [float(F32(v)) for v in
              draw(st.lists(elem, min_size=n, max_size=n))]
    case = {"cfg": {"cls": cls, "kw": kw}, "shape": shape, "xs": xs}
    if isinstance(kw["alpha"], str) and draw(st.integers(0, 3)) == 0:
      kind = draw(st.sampled_from(["modify", "modify", "reverse"]))
      meta = {"kind": kind}
      if kind == "modify":
        meta["g"] = draw(st.integers(0, 63))
        meta["factor"] = draw(st.sampled_from([0.0, -1.0, 3.0, 0.3125, 1000.0,
                                               -0.001]))
      case["meta"] = meta
    if draw(st.integers(0, 3)) == 0:
      case["prime"] = True
    return case
  return s()


# ---------------------------------------------------------------------------
# C05 cases


# Reconfiguration histories: case["steps"] is a list of operations applied to
# the freshly constructed quantizer (cfg = CONSTRUCTOR arguments) before the
# checked call:
#   {"op": "call"}                       quantize a priming tensor
#   {"op": "max"|"min"|"range"|"str"|"config"}   read-only use
#   {"op": "set", "attr": "symmetric"|"alpha", "value": v}   documented
#                                        modifiable attributes
#   {"op": "trainable"}                  what every QKeras layer does with its
#                                        weight quantizer (alpha None ->
#                                        'auto_po2', symmetric True)
#   {"op": "layer", "kind": K}           hand the quantizer to a layer
#                                        constructor, use the layer's quantizer
# c05_effective() gives the configuration in force at the checked call.

LAYER_KINDS = ["QDense", "QConv2D", "QConv1D", "QDepthwiseConv2D"]


def c05_effective(cfg, steps):
  kw = dict(cfg["kw"])
  for s in steps or []:
    if s["op"] == "set":
      kw[s["attr"]] = s["value"]
    elif s["op"] in ("trainable", "layer"):
      if kw.get("alpha") is None:
        kw["alpha"] = "auto_po2"
        kw["symmetric"] = 1
  return {"cls": cfg["cls"], "kw": kw}


def c05_routes(steps):
  out = []
  for s in steps or []:
    if s["op"] == "set":
      r = "sym_flip" if s["attr"] == "symmetric" else "alpha_switch"
    elif s["op"] in ("trainable", "layer"):
      r = s["op"]
    else:
      continue
    if r not in out:
      out.append(r)
  return out


def apply_steps(q, steps, x_prime, phase=0, seed=None):
  """Runs the history on q; returns the quantizer to be called afterwards."""
  import qkeras  # pylint: disable=g-import-not-at-top
  for s in steps or []:
    op = s["op"]
    if op == "call":
      call(q, x_prime, phase, seed)
    elif op in ("max", "min", "range"):
      getattr(q, op)()
    elif op == "str":
      str(q)
    elif op == "config":
      q.get_config()
    elif op == "set":
      setattr(q, s["attr"], s["value"])
    elif op == "trainable":
      q._set_trainable_parameter()    # pylint: disable=protected-access
    elif op == "layer":
      kind = s["kind"]
      if kind == "QDense":
        q = qkeras.QDense(3, kernel_quantizer=q).kernel_quantizer_internal
      elif kind == "QConv2D":
        q = qkeras.QConv2D(2, (2, 2),
                           kernel_quantizer=q).kernel_quantizer_internal
      elif kind == "QConv1D":
        q = qkeras.QConv1D(2, 2, kernel_quantizer=q).kernel_quantizer_internal
      elif kind == "QDepthwiseConv2D":
        q = qkeras.QDepthwiseConv2D(
            (2, 2), depthwise_quantizer=q).depthwise_quantizer_internal
      else:
        raise ValueError(kind)
    else:
      raise ValueError(op)
  return q


def _c05_history(draw, cls, kw):
  """kw = configuration wanted at the checked call.  Returns (constructor kw,
  steps) of a history that ends in that configuration."""
  st = _st()
  alpha = kw["alpha"]
  restricted = any(kw.get(k) is not None for k in (
      "elements_per_scale", "min_po2_exponent", "max_po2_exponent"))
  routes = []
  if cls == "quantized_linear":
    routes += ["sym_flip", "sym_flip", "alpha_switch"]
    if alpha == "auto_po2" and kw.get("symmetric", 1) == 1:
      routes += ["trainable", "layer", "layer"]
  elif kw.get("post_training_scale") is None:
    if not restricted:
      routes.append("alpha_switch")
    if alpha == "auto_po2":
      routes += ["trainable", "layer", "layer"]
  if not routes:
    return kw, None
  route = draw(st.sampled_from(routes))
  ctor = dict(kw)
  ops = ["call", "call", "max", "min", "str", "config"]
  if cls == "quantized_linear":
    ops.append("range")
  if cls == "quantized_bits" and restricted:
    ops = [o for o in ops if o != "call"]   # alpha=None + these options asserts

  called = [False]

  def uses(lo=1):
    seq = draw(st.lists(st.sampled_from(ops), min_size=lo, max_size=3))
    out = []
    for o in seq:
      if o == "range" and called[0]:
        # range() multiplies the recorded scale with a vector of codes; after
        # a call the scale is per channel and does not broadcast with it
        o = "max"
      called[0] = called[0] or o == "call"
      out.append({"op": o})
    return out

  steps = []
  if route == "sym_flip":
    fin = int(kw.get("symmetric", 1))
    as_bool = draw(st.booleans())
    val = (lambda v: bool(v)) if as_bool else (lambda v: int(v))
    if draw(st.integers(0, 3)) == 0:      # there and back again
      ctor["symmetric"] = fin
      steps = uses(0) + [{"op": "set", "attr": "symmetric", "value": val(1 - fin)}]
      steps += uses() + [{"op": "set", "attr": "symmetric", "value": val(fin)}]
    else:
      ctor["symmetric"] = 1 - fin
      steps = uses() + [{"op": "set", "attr": "symmetric", "value": val(fin)}]
  elif route == "alpha_switch":
    other = "auto" if alpha == "auto_po2" else "auto_po2"
    if cls == "quantized_linear":
      ctor["alpha"] = draw(st.sampled_from([None, other]))
    else:
      ctor["alpha"] = other
    steps = uses() + [{"op": "set", "attr": "alpha", "value": alpha}]
  else:
    ctor["alpha"] = None
    sym = draw(st.sampled_from([None, 0, 1]))
    ctor.pop("symmetric", None)
    if sym is not None:
      ctor["symmetric"] = sym
    last = {"op": "trainable"} if route == "trainable" else {
        "op": "layer", "kind": draw(st.sampled_from(LAYER_KINDS))}
    steps = uses() + [last]
  return ctor, steps


def c05_case():
  st = _st()

  @st.composite
  def s(draw):
    cls = draw(st.sampled_from(["quantized_bits", "quantized_linear"]))
    bits = draw(st.integers(2, 8))
    kw = {"bits": bits}
    alpha = draw(st.sampled_from(["auto", "auto_po2"]))
    kw["alpha"] = alpha
    mode = draw(st.sampled_from(["plain", "plain", "plain", "equiv", "pts"]))
    if cls == "quantized_linear":
      if mode == "pts":
        mode = "plain"
      kn = draw(st.sampled_from([True, True, True, False]))
      if not kn:
        kw["keep_negative"] = False
      if draw(st.booleans()):
        kw["symmetric"] = draw(st.sampled_from([0, 1]))
      ub = bits - (1 if kn else 0)
      kw["integer"] = draw(st.integers(0, min(3, ub)))
      lay = layout(draw, axis_modes=("none", "none", "int"), allow_eps=False)
    else:
      ub = bits - 1
      kw["integer"] = draw(st.integers(0, min(3, ub)))
      lay = layout(draw, allow_eps=(alpha == "auto_po2" and mode != "pts"))
      if draw(st.integers(0, 2)) == 0:
        kw["use_ste"] = False          # (1-f)*x + f*xq with f = 1
      if draw(st.integers(0, 3)) == 0:
        kw["symmetric"] = draw(st.sampled_from([0, 1]))   # 'auto*' forces 1
    if draw(st.integers(0, 4)) == 0:
      kw["use_variables"] = True       # qnoise_factor becomes a tf.Variable
      if draw(st.booleans()):
        kw["var_name"] = draw(st.sampled_from(["q", "w_q", "layer0/kernel"]))
    if draw(st.integers(0, 5)) == 0:
      kw["qnoise_factor"] = 1.0
    if lay["scale_axis"] is not None:
      kw["scale_axis"] = lay["scale_axis"]
    if lay["elements_per_scale"] is not None:
      kw["elements_per_scale"] = lay["elements_per_scale"]
    shape = lay["shape"]
    gid = R.group_ids(shape, kw.get("scale_axis"), kw.get("elements_per_scale"))
    case = {"cfg": {"cls": cls, "kw": kw}, "shape": shape}
    if mode == "equiv":
      # channel maxima in [2^-7, 2^12] ~ [8e-3, 4e3]; no zero groups
      xs, info = grouped_tensor(draw, shape, gid, e_lo=-3, e_hi=9, spread=3,
                                kinds=["normal", "normal", "single", "const",
                                       "pos", "neg", "small", "large"],
                                allow_zero=False)
      case["meta"] = {"kind": "equiv", "k": draw(st.sampled_from(
          [-6, -5, -4, -3, -2, -1, 1, 2, 3, 4, 5, 6]))}
    else:
      bounded = (cls == "quantized_bits" and alpha == "auto_po2" and
                 mode == "plain" and draw(st.booleans()))
      spread = 3 if (bounded or mode == "pts") else 6
      # a third of the bounded cases: a bound with the value 0 (the boundary
      # value of the option; None means "no bound"), tensor magnitudes chosen
      # so that the natural exponent lies within +-3 of it
      zero = bounded and draw(st.integers(0, 2)) == 0
      if zero:
        z = kw["integer"] + ub + draw(st.integers(-3, 3))
        xs, info = grouped_tensor(draw, shape, gid, e_lo=z, e_hi=z,
                                  spread=spread)
      else:
        xs, info = grouped_tensor(draw, shape, gid, spread=spread)
      nat = info["E"] - kw["integer"] - ub     # exponent of the internal scale
      if zero:
        which = draw(st.sampled_from(["min", "max", "lo0", "hi0", "both0"]))
        if which in ("min", "lo0", "both0"):
          kw["min_po2_exponent"] = 0
        if which in ("max", "hi0", "both0"):
          kw["max_po2_exponent"] = 0
        if which == "lo0":
          kw["max_po2_exponent"] = draw(st.integers(0, 5))
        if which == "hi0":
          kw["min_po2_exponent"] = -draw(st.integers(0, 5))
      elif bounded:
        lo = nat + draw(st.integers(-4, 3))
        hi = lo + draw(st.integers(0, 5))
        which = draw(st.sampled_from(["both", "min", "max"]))
        if which in ("both", "min"):
          kw["min_po2_exponent"] = lo
        if which in ("both", "max"):
          kw["max_po2_exponent"] = hi
      if mode == "pts":
        # frozen scale: one value, or one per index of the scale axes
        axes = R.scale_axes(len(shape), kw.get("scale_axis"))
        per = draw(st.booleans()) and len(shape) > 1
        pshape = [shape[a] if a in axes else 1 for a in range(len(shape))] \
            if per else []
        cnt = int(np.prod(pshape)) if pshape else 1
        vals = []
        for _ in range(cnt):
          e = info["E"] - kw["integer"] + draw(st.integers(-3, 3))
          if alpha == "auto_po2":
            v = 2.0 ** e
          else:
            v = 2.0 ** e * draw(st.floats(min_value=1.0, max_value=2.0,
                                          width=32))
          vals.append(float(F32(v)))
        pts = np.asarray(vals, dtype=F32).reshape(pshape).tolist()
        kw["post_training_scale"] = pts
        case["meta"] = {"kind": "pts"}
    case["xs"] = xs
    if draw(st.integers(0, 3)) == 0:
      case["prime"] = True
    # rounding mode x learning phase: stochastic rounding only acts in the
    # training phase; at inference it is documented to round deterministically
    if draw(st.integers(0, 3)) == 0:
      kw["use_stochastic_rounding"] = True
      case["tf_seed"] = draw(st.integers(0, 2 ** 16))
    if draw(st.integers(0, 2)) == 0:
      case["phase"] = 1
    # reconfiguration history in front of the checked call
    if draw(st.integers(0, 3)) == 0:
      ctor, steps = _c05_history(draw, cls, kw)
      if steps:
        case["cfg"] = {"cls": cls, "kw": ctor}
        case["steps"] = steps
    return case
  return s()
