"""Model descriptions for the qtools checks (C18, C19): a plain-dict DSL, a
builder, on-lattice weight construction and Hypothesis strategies.

Quantizer spec:
  {"t":"qb","bits":b,"int":i,"sym":0|1,"kn":0|1,"alpha":None|1.0|"auto_po2"}
  {"t":"relu","bits":b,"int":i}
  {"t":"po2","bits":b,"mv":None|float}      quantized_po2(b, max_value=mv)
  {"t":"bin"}  binary(alpha=1)      {"t":"ter"}  ternary(alpha=1)
  {"t":"sbin"} stochastic_binary(alpha=1)   {"t":"ster"} stochastic_ternary(alpha=1)
    (the "stochastic" classes are deterministic outside the training phase:
    sign(x) / the ternary threshold rule; optional "temp", "real_sigmoid"
    constructor options only shape the training-time probabilities)
Layer spec ("k" = kind): dense / conv1d / conv2d / dw2d (+ "kq","bq","bias"),
  act ("q"), flatten; C19 adds keras twins and pooling / merge kinds.

Everything random is drawn by Hypothesis or derived from integer seeds stored in
the case (numpy RandomState(seed)), so a case is a value.
"""
import numpy as np

from vf.ref import macs

F32 = np.float32


# ---------------------------------------------------------------------------
# quantizers


def build_q(spec):
  import qkeras  # pylint: disable=g-import-not-at-top
  if spec is None:
    return None
  t = spec["t"]
  if t == "qb":
    return qkeras.quantized_bits(bits=spec["bits"], integer=spec["int"],
                                 symmetric=spec.get("sym", 0),
                                 keep_negative=bool(spec.get("kn", 1)),
                                 alpha=(None if spec.get("alpha") == "none_as_auto"
                                        else spec.get("alpha")))
  if t == "relu":
    return qkeras.quantized_relu(bits=spec["bits"], integer=spec["int"])
  if t == "po2":
    return qkeras.quantized_po2(bits=spec["bits"], max_value=spec.get("mv"))
  if t == "rpo2":
    return qkeras.quantized_relu_po2(bits=spec["bits"], max_value=spec.get("mv"))
  if t == "bin":
    return qkeras.binary(alpha=1)
  if t == "ter":
    return qkeras.ternary(alpha=1)
  if t == "sbin":
    return qkeras.stochastic_binary(
        alpha=1, temperature=spec.get("temp", 6.0),
        use_real_sigmoid=bool(spec.get("real_sigmoid", 1)))
  if t == "ster":
    return qkeras.stochastic_ternary(
        alpha=1, temperature=spec.get("temp", 8.0),
        use_real_sigmoid=bool(spec.get("real_sigmoid", 1)))
  raise ValueError(spec)


BIN_KIND = ("bin", "sbin")         # values {-1, +1}
TER_KIND = ("ter", "ster")         # values {-1, 0, +1}
BIN_TER = BIN_KIND + TER_KIND


def is_auto(spec):
  """quantized_bits kernels with alpha='auto_po2'; a kernel quantizer built
  with alpha=None is switched to auto_po2 (+symmetric) by the layer
  (_set_trainable_parameter), spelled "none_as_auto" in specs."""
  return spec is not None and spec.get("alpha") in ("auto_po2", "none_as_auto")


def q_family(spec):
  """Coarse class of a quantizer spec, used in labels and signatures."""
  if spec is None:
    return "none"
  t = spec["t"]
  if t == "qb":
    if is_auto(spec):
      return "qb_auto_po2"
    return "qb" if spec.get("kn", 1) else "qb_unsigned"
  if t == "po2":
    mv = spec.get("mv")
    if mv is None:
      return "po2"
    return "po2_max_le1" if mv <= 1 else "po2_max_gt1"
  return t


def fixed_lattice(spec):
  """(step, kmin, kmax) of the documented quantized_bits / quantized_relu
  lattice: keep_negative -> step 2^(int-bits+1), codes
  [-2^(bits-1)+symmetric, 2^(bits-1)-1]; unsigned -> step 2^(int-bits),
  codes [0, 2^bits-1]."""
  if spec["t"] in BIN_TER:
    return 1.0, -1, 1
  b, i = spec["bits"], spec["int"]
  if spec["t"] == "relu" or not spec.get("kn", 1):
    return 2.0 ** (i - b), 0, 2 ** b - 1
  return 2.0 ** (i - b + 1), -(2 ** (b - 1)) + int(spec.get("sym", 0)), 2 ** (b - 1) - 1


def po2_exponents(spec):
  """Exponent interval of quantized_po2 as its docstring / constructor define
  it: one sign bit for the value; the exponent sign bit is dropped when
  max_value <= 1; exponents are additionally capped by max_value."""
  nsb = spec["bits"] - (0 if spec["t"] == "rpo2" else 1)   # relu_po2: no sign bit
  mv = spec.get("mv")
  need = 1 if (mv is None or mv > 1) else 0
  eff = nsb - need
  emin, emax = -(2 ** eff), 2 ** eff - 1
  if mv is not None:
    # x is clipped to max_value, then log2 is rounded: 6 -> 2^3
    emax = min(emax, int(np.round(np.log2(mv))))
  return emin, emax


def lattice_values(spec, shape, mode, rs):
  """float32 tensor of values ON the quantizer's documented lattice.
  mode: random | max | min | signed_max | lsb (smallest non-zero magnitude)."""
  n = int(np.prod(shape))
  t = spec["t"]
  if t in ("qb", "relu") and not is_auto(spec):
    step, kmin, kmax = fixed_lattice(spec)
    if mode == "random":
      k = rs.randint(kmin, kmax + 1, size=n)
    elif mode == "lsb":
      k = np.where(rs.randint(0, 2, size=n) == 1, 1, -1 if kmin < 0 else 1)
    elif mode == "max":
      k = np.full(n, kmax)
    elif mode == "min":
      k = np.full(n, kmin)
    else:
      k = np.where(rs.randint(0, 2, size=n) == 1, kmax, kmin)
    v = k.astype(np.float64) * step
  elif t == "qb":          # auto_po2: raw non-zero floats, per-channel magnitude
    _, _, kmax = fixed_lattice(dict(spec, alpha=None))
    top = 2.0 ** spec["int"]
    mag = 2.0 ** rs.randint(-3, 3, size=shape[-1] if len(shape) > 1 else 1)
    if mode in ("random", "lsb"):
      v = rs.uniform(-1.0, 1.0, size=shape)
    elif mode == "max":
      v = rs.uniform(0.5, 1.0, size=shape)
    elif mode == "min":
      v = -rs.uniform(0.5, 1.0, size=shape)
    else:
      v = rs.uniform(0.5, 1.0, size=shape) * np.where(
          rs.randint(0, 2, size=shape) == 1, 1.0, -1.0)
    v = np.where(np.abs(v) < 1e-3, 1e-3, v)
    if len(shape) == 4 and shape[-1] == 1:      # depthwise: channel axis is -2
      mag = 2.0 ** rs.randint(-3, 3, size=(shape[-2], 1))
    v = (v * top * mag).reshape(-1)
  elif t in ("po2", "rpo2"):
    emin, emax = po2_exponents(spec)
    if mode == "random":
      e = rs.randint(emin, emax + 1, size=n)
      s = np.where(rs.randint(0, 2, size=n) == 1, 1.0, -1.0)
    elif mode == "lsb":
      e = np.full(n, emin)
      s = np.where(rs.randint(0, 2, size=n) == 1, 1.0, -1.0)
    elif mode == "max":
      e, s = np.full(n, emax), np.ones(n)
    elif mode == "min":
      e, s = np.full(n, emax), -np.ones(n)
    else:      # signed_max: both ends of the exponent range, random signs
      e = np.where(rs.randint(0, 3, size=n) == 0, emin, emax)
      s = np.where(rs.randint(0, 2, size=n) == 1, 1.0, -1.0)
    if mode == "random":
      e[rs.randint(0, n)] = emin             # make sure the smallest code occurs
    if t == "rpo2":
      s = np.ones(n)                          # unsigned: positive powers of two
    v = s * np.ldexp(1.0, e.astype(np.int64))
  elif t in BIN_KIND:
    if mode in ("random", "signed_max", "lsb"):
      v = np.where(rs.randint(0, 2, size=n) == 1, 1.0, -1.0)
    else:
      v = np.full(n, 1.0 if mode == "max" else -1.0)
  elif t in TER_KIND:
    if mode == "random":
      v = rs.randint(-1, 2, size=n).astype(np.float64)
    elif mode in ("signed_max", "lsb"):
      v = np.where(rs.randint(0, 2, size=n) == 1, 1.0, -1.0)
    else:
      v = np.full(n, 1.0 if mode == "max" else -1.0)
  else:
    raise ValueError(spec)
  return np.asarray(v, dtype=np.float64).reshape(shape).astype(F32)


# ---------------------------------------------------------------------------
# geometry


def out_shape(layer, in_shape):
  """Output shape (without batch) of a layer spec, from the loop-nest geometry."""
  k = layer["k"]
  if k in ("dense", "kdense"):
    return [layer["units"]]
  if k in ("conv1d", "kconv1d"):
    pos = macs.conv_positions(in_shape[:1], [layer["ks"][0]], [layer["st"][0]],
                               [layer["dil"][0]], layer["pad"])
    return [len(pos[0]), layer["filters"]]
  if k in ("conv2d", "kconv2d"):
    pos = macs.conv_positions(in_shape[:2], layer["ks"], layer["st"],
                               layer["dil"], layer["pad"])
    return [len(pos[0]), len(pos[1]), layer["filters"]]
  if k in ("dw2d", "kdw2d"):
    pos = macs.conv_positions(in_shape[:2], layer["ks"], layer["st"],
                               layer["dil"], layer["pad"])
    return [len(pos[0]), len(pos[1]), in_shape[2] * layer.get("dm", 1)]
  if k in ("avgpool", "qavgpool", "maxpool"):
    pos = macs.conv_positions(in_shape[:2], layer["pool"], layer["st"], [1, 1],
                               layer["pad"])
    return [len(pos[0]), len(pos[1]), in_shape[2]]
  if k in ("gap", "qgap"):
    return [in_shape[2]]
  if k == "flatten":
    return [int(np.prod(in_shape))]
  return list(in_shape)


def kernel_shape(layer, in_shape):
  k = layer["k"]
  if k in ("dense", "kdense"):
    return (in_shape[-1], layer["units"])
  if k in ("conv1d", "kconv1d"):
    return (layer["ks"][0], in_shape[-1], layer["filters"])
  if k in ("conv2d", "kconv2d"):
    return (layer["ks"][0], layer["ks"][1], in_shape[-1], layer["filters"])
  if k in ("dw2d", "kdw2d"):
    return (layer["ks"][0], layer["ks"][1], in_shape[-1], layer.get("dm", 1))
  raise ValueError(k)


COMPUTE = ("dense", "conv1d", "conv2d", "dw2d")
CLASS_OF = {"dense": "QDense", "conv1d": "QConv1D", "conv2d": "QConv2D",
            "dw2d": "QDepthwiseConv2D"}


# ---------------------------------------------------------------------------
# builder (C18 sequential stacks)


def _build_stack(case):
  """Functional model Input -> layers...; layer names are 'L<i>'.
  Returns (model, shapes) where shapes[i] is the input shape of layer i."""
  import qkeras  # pylint: disable=g-import-not-at-top
  import tensorflow as tf  # pylint: disable=g-import-not-at-top
  kl = tf.keras.layers
  x = x_in = kl.Input(tuple(case["in_shape"]), name="inp")
  shapes = []
  cur = list(case["in_shape"])
  for i, l in enumerate(case["layers"]):
    name = "L%d" % i
    shapes.append(list(cur))
    k = l["k"]
    if k == "dense":
      x = qkeras.QDense(l["units"], use_bias=l["bias"],
                        kernel_quantizer=build_q(l["kq"]),
                        bias_quantizer=build_q(l["bq"]) if l["bias"] else None,
                        name=name)(x)
    elif k == "conv1d":
      x = qkeras.QConv1D(l["filters"], l["ks"][0], strides=l["st"][0],
                         dilation_rate=l["dil"][0], padding=l["pad"],
                         use_bias=l["bias"], kernel_quantizer=build_q(l["kq"]),
                         bias_quantizer=build_q(l["bq"]) if l["bias"] else None,
                         name=name)(x)
    elif k == "conv2d":
      x = qkeras.QConv2D(l["filters"], tuple(l["ks"]), strides=tuple(l["st"]),
                         dilation_rate=tuple(l["dil"]), padding=l["pad"],
                         use_bias=l["bias"], kernel_quantizer=build_q(l["kq"]),
                         bias_quantizer=build_q(l["bq"]) if l["bias"] else None,
                         name=name)(x)
    elif k == "dw2d":
      x = qkeras.QDepthwiseConv2D(
          tuple(l["ks"]), strides=tuple(l["st"]),
          dilation_rate=tuple(l["dil"]), padding=l["pad"], use_bias=l["bias"],
          depth_multiplier=l.get("dm", 1),
          depthwise_quantizer=build_q(l["kq"]),
          bias_quantizer=build_q(l["bq"]) if l["bias"] else None, name=name)(x)
    elif k == "act":
      x = qkeras.QActivation(build_q(l["q"]), name=name)(x)
    elif k == "flatten":
      x = kl.Flatten(name=name)(x)
    else:
      raise ValueError(k)
    cur = out_shape(l, cur)
  model = tf.keras.Model(x_in, x)
  if list(model.output_shape[1:]) != cur:
    from vf import core  # pylint: disable=g-import-not-at-top
    raise core.HarnessError("geometry model disagrees with keras: %r vs %r" %
                            (cur, model.output_shape))
  return model, shapes


def set_stack_weights(model, case, shapes, reseed=0, shift=0):
  """Stored weights = on-lattice values (auto_po2: raw floats, multiplied by
  2^shift: the kernel scale chosen by auto_po2 moves by that factor)."""
  for i, l in enumerate(case["layers"]):
    if l["k"] not in COMPUTE:
      continue
    rs = np.random.RandomState(l["wseed"] + reseed)
    ks = kernel_shape(l, shapes[i])
    w = [lattice_values(l["kq"], ks, l["wmode"], rs)]
    if shift and is_auto(l["kq"]):
      w[0] = np.ldexp(w[0], int(shift)).astype(F32)
    if l["bias"]:
      nb = ks[-1] if l["k"] != "dw2d" else ks[-2] * ks[-1]
      w.append(lattice_values(l["bq"], (nb,), l["wmode"], rs))
    model.get_layer("L%d" % i).set_weights(w)


# ---------------------------------------------------------------------------
# strategies


def st_qb(st, bits=(2, 6), ints=(0, 2), sym=(0, 1), alpha=(1.0,)):
  return st.builds(
      lambda b, i, s, a: {"t": "qb", "bits": b, "int": min(i, b - 1), "sym": s,
                          "kn": 1, "alpha": a},
      st.integers(*bits), st.integers(*ints), st.sampled_from(sym),
      st.sampled_from(alpha))


def st_kernel_q(st, wide=False):
  extra = []
  if wide:       # thorough tier: accumulators beyond 24 bits (float32 inexact)
    extra = [st_qb(st, bits=(8, 12), ints=(0, 3)),
             st.builds(lambda b: {"t": "po2", "bits": b, "mv": None},
                       st.integers(5, 6))]
  return st.one_of(
      *extra,
      st_qb(st),
      st_qb(st, bits=(2, 8)),
      st.builds(lambda b, i, a: {"t": "qb", "bits": b, "int": min(i, b - 1),
                                 "sym": 0, "kn": 1, "alpha": a},
                st.integers(3, 6), st.integers(0, 1),
                st.sampled_from(["auto_po2", "auto_po2", "none_as_auto"])),
      st.builds(lambda b, mv: {"t": "po2", "bits": b, "mv": mv},
                st.integers(3, 5),
                st.sampled_from([None, None, 2.0, 4.0, 1.0, 0.5, 3.0, 6.0, 1.5])),
      st.builds(lambda b: {"t": "po2", "bits": b, "mv": None}, st.integers(3, 5)),
      st.just({"t": "bin"}), st.just({"t": "ter"}),
      st_stochastic_q(st),
      # unsigned kernels
      st.one_of(
          st.builds(lambda b, i: {"t": "qb", "bits": b, "int": min(i, b), "sym": 0,
                                  "kn": 0, "alpha": 1.0},
                    st.integers(2, 5), st.integers(0, 2)),
          st.builds(lambda b, i: {"t": "relu", "bits": b, "int": min(i, b)},
                    st.integers(2, 5), st.integers(0, 2)),
          st.builds(lambda b: {"t": "rpo2", "bits": b, "mv": None},
                    st.integers(2, 3))))


def st_stochastic_q(st):
  """stochastic_binary / stochastic_ternary (qtools: StochasticBinary /
  StochasticTernary, the same value sets as binary / ternary) over their
  constructor options."""
  return st.builds(
      lambda t, temp, rs: dict({"t": t}, **({} if temp is None else
                                            {"temp": temp, "real_sigmoid": rs})),
      st.sampled_from(["sbin", "ster"]), st.sampled_from([None, None, 1.0, 8.0]),
      st.integers(0, 1))


def st_bias_q(st):
  return st.one_of(
      st_qb(st, bits=(2, 8), ints=(0, 3), alpha=(None, 1.0)),
      st.builds(lambda b: {"t": "po2", "bits": b, "mv": None}, st.integers(3, 4)))


def st_act_q(st):
  return st.one_of(
      # 1-bit relu: values {0, 2^(integer-1)}
      st.builds(lambda i: {"t": "relu", "bits": 1, "int": i}, st.integers(0, 2)),
      st.builds(lambda b, i: {"t": "relu", "bits": b, "int": min(i, b)},
                st.integers(2, 6), st.integers(0, 2)),
      st.builds(lambda b, i: {"t": "relu", "bits": b, "int": min(i, b)},
                st.integers(2, 6), st.integers(0, 2)),
      st.builds(lambda b, i: {"t": "qb", "bits": b, "int": min(i, b - 1),
                              "sym": 1, "kn": 1, "alpha": None},
                st.integers(2, 6), st.integers(0, 2)),
      st.builds(lambda b, i: {"t": "qb", "bits": b, "int": min(i, b - 1),
                              "sym": 1, "kn": 1, "alpha": None},
                st.integers(2, 6), st.integers(0, 2)),
      st.just({"t": "bin"}), st.just({"t": "ter"}),
      # stochastic_binary / stochastic_ternary as activations (deterministic
      # outside the training phase)
      st_stochastic_q(st))


POW2_FANIN = [1, 2, 4, 8, 16]


def st_geometry(st, draw, kind, cur, small=True):
  """Draws kernel/stride/dilation/padding for a conv-like layer given the
  current spatial shape; by construction the layer is buildable."""
  nd = 1 if kind == "conv1d" else 2
  ks, stv, dil = [], [], []
  pads = ["valid", "same"] + (["causal"] if kind == "conv1d" else [])
  pad = draw(st.sampled_from(pads))
  for a in range(nd):
    kmax = min(3 if small else 5, cur[a])
    k = draw(st.integers(1, kmax))
    s = draw(st.integers(1, 2))
    d = 1
    if s == 1 and k > 1 and (k - 1) * 2 + 1 <= cur[a]:
      d = draw(st.integers(1, 2))
    ks.append(k)
    stv.append(s)
    dil.append(d)
  if nd == 2 and any(s > 1 for s in stv) and any(d > 1 for d in dil):
    dil = [1, 1]
  if kind in ("dw2d", "kdw2d"):
    stv = [stv[0], stv[0]]      # DepthwiseConv2dNative: equal strides only
    if stv[0] > 1:
      dil = [1, 1]
  return ks, stv, dil, pad


# ---------------------------------------------------------------------------
# C19: DAG models mixing qkeras and keras layers

KERAS_CLASS = {
    "conv2d": "QConv2D", "kconv2d": "Conv2D", "conv1d": "QConv1D",
    "kconv1d": "Conv1D", "dw2d": "QDepthwiseConv2D", "kdw2d": "DepthwiseConv2D",
    "dense": "QDense", "kdense": "Dense", "act": "QActivation",
    "kact": "Activation", "bn": "BatchNormalization", "maxpool": "MaxPooling2D",
    "avgpool": "AveragePooling2D", "qavgpool": "QAveragePooling2D",
    "gap": "GlobalAveragePooling2D", "qgap": "QGlobalAveragePooling2D",
    "flatten": "Flatten", "add": "Add", "mul": "Multiply", "cat": "Concatenate",
}
MERGE = ("add", "mul", "cat")
WEIGHTED = ("conv2d", "kconv2d", "conv1d", "kconv1d", "dw2d", "kdw2d", "dense",
            "kdense")


def dag_shapes(case):
  """Input shapes (list per node) and output shape of every node."""
  ins, outs = [], []
  for n in case["nodes"]:
    ish = [case["in_shape"] if j < 0 else outs[j] for j in n["in"]]
    ins.append([list(s) for s in ish])
    if n["k"] in ("add", "mul"):
      o = list(ish[0])
    elif n["k"] == "cat":
      o = list(ish[0][:-1]) + [sum(s[-1] for s in ish)]
    else:
      o = out_shape(n, ish[0])
    outs.append(o)
  return ins, outs


def _build_dag(case):
  import qkeras  # pylint: disable=g-import-not-at-top
  import tensorflow as tf  # pylint: disable=g-import-not-at-top
  from vf import core  # pylint: disable=g-import-not-at-top
  kl = tf.keras.layers
  x_in = kl.Input(tuple(case["in_shape"]), name="inp")
  ins, outs = dag_shapes(case)
  tensors = []
  for i, n in enumerate(case["nodes"]):
    name = "N%d" % i
    src = [x_in if j < 0 else tensors[j] for j in n["in"]]
    k = n["k"]
    x = src[0]
    if k == "conv2d":
      y = qkeras.QConv2D(n["filters"], tuple(n["ks"]), strides=tuple(n["st"]),
                         dilation_rate=tuple(n["dil"]), padding=n["pad"],
                         use_bias=n["bias"], kernel_quantizer=build_q(n["kq"]),
                         bias_quantizer=build_q(n["bq"]) if n["bias"] else None,
                         name=name)(x)
    elif k == "kconv2d":
      y = kl.Conv2D(n["filters"], tuple(n["ks"]), strides=tuple(n["st"]),
                    dilation_rate=tuple(n["dil"]), padding=n["pad"],
                    use_bias=n["bias"], name=name)(x)
    elif k == "conv1d":
      y = qkeras.QConv1D(n["filters"], n["ks"][0], strides=n["st"][0],
                         dilation_rate=n["dil"][0], padding=n["pad"],
                         use_bias=n["bias"], kernel_quantizer=build_q(n["kq"]),
                         bias_quantizer=build_q(n["bq"]) if n["bias"] else None,
                         name=name)(x)
    elif k == "kconv1d":
      y = kl.Conv1D(n["filters"], n["ks"][0], strides=n["st"][0],
                    dilation_rate=n["dil"][0], padding=n["pad"],
                    use_bias=n["bias"], name=name)(x)
    elif k == "dw2d":
      y = qkeras.QDepthwiseConv2D(
          tuple(n["ks"]), strides=tuple(n["st"]), dilation_rate=tuple(n["dil"]),
          padding=n["pad"], use_bias=n["bias"],
          depth_multiplier=n.get("dm", 1),
          depthwise_quantizer=build_q(n["kq"]),
          bias_quantizer=build_q(n["bq"]) if n["bias"] else None, name=name)(x)
    elif k == "kdw2d":
      y = kl.DepthwiseConv2D(tuple(n["ks"]), strides=tuple(n["st"]),
                             dilation_rate=tuple(n["dil"]), padding=n["pad"],
                             depth_multiplier=n.get("dm", 1),
                             use_bias=n["bias"], name=name)(x)
    elif k == "dense":
      y = qkeras.QDense(n["units"], use_bias=n["bias"],
                        kernel_quantizer=build_q(n["kq"]),
                        bias_quantizer=build_q(n["bq"]) if n["bias"] else None,
                        name=name)(x)
    elif k == "kdense":
      y = kl.Dense(n["units"], use_bias=n["bias"], name=name)(x)
    elif k == "act":
      y = qkeras.QActivation(build_q(n["q"]), name=name)(x)
    elif k == "kact":
      y = kl.Activation("relu", name=name)(x)
    elif k == "bn":
      y = kl.BatchNormalization(name=name)(x)
    elif k == "maxpool":
      y = kl.MaxPooling2D(tuple(n["pool"]), strides=tuple(n["st"]),
                          padding=n["pad"], name=name)(x)
    elif k == "avgpool":
      y = kl.AveragePooling2D(tuple(n["pool"]), strides=tuple(n["st"]),
                              padding=n["pad"], name=name)(x)
    elif k == "qavgpool":
      y = qkeras.QAveragePooling2D(tuple(n["pool"]), strides=tuple(n["st"]),
                                   padding=n["pad"],
                                   average_quantizer=build_q(n["q"]),
                                   name=name)(x)
    elif k == "gap":
      y = kl.GlobalAveragePooling2D(name=name)(x)
    elif k == "qgap":
      y = qkeras.QGlobalAveragePooling2D(average_quantizer=build_q(n["q"]),
                                         name=name)(x)
    elif k == "flatten":
      y = kl.Flatten(name=name)(x)
    elif k == "add":
      y = kl.Add(name=name)(src)
    elif k == "mul":
      y = kl.Multiply(name=name)(src)
    elif k == "cat":
      y = kl.Concatenate(name=name)(src)
    else:
      raise ValueError(k)
    if list(y.shape[1:]) != outs[i]:
      raise core.HarnessError("geometry model disagrees with keras at %s %r: "
                              "%r vs %r" % (name, n, outs[i], y.shape))
    tensors.append(y)
  used = set(j for n in case["nodes"] for j in n["in"])
  sinks = [i for i in range(len(case["nodes"])) if i not in used]
  model = tf.keras.Model(x_in, [tensors[i] for i in sinks])
  return model, ins, outs, sinks


def _with_retry(fn, case):
  """Keras model construction is a precondition, not the thing under test.
  Seen once (two workers of one run, first model of the process): autograph
  converted QDense.__init__ and died on the zero-argument super()
  ("KeyError: '__class__'"); the same case builds fine afterwards, so the
  construction is retried once in a fresh Keras session."""
  try:
    return fn(case)
  except RuntimeError as e:
    if "__class__" not in str(e):
      raise
    import tensorflow as tf  # pylint: disable=g-import-not-at-top
    tf.keras.backend.clear_session()
    return fn(case)


def build_stack(case):
  return _with_retry(_build_stack, case)


def build_dag(case):
  return _with_retry(_build_dag, case)
