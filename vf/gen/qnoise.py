"""C07 generators: quantizers exposing the qnoise_factor knob (option lattice,
closed-form surrogates re-derived from the docstrings, probe tensors), and
descriptions of stub models (lists of real qkeras layers) for the scheduler.

A quantizer *config* is {"cls": name, "kw": {...}, "use_ste": True|False|None}
(None: the class has no such option).  Everything is JSON-serialisable.
"""
import itertools

import numpy as np

F32 = np.float32

KNOB_CLASSES = ["quantized_bits", "quantized_linear", "quantized_relu",
                "quantized_po2", "quantized_relu_po2", "quantized_hswish"]
# quantized_linear / quantized_hswish do not take use_ste in the constructor.
CTOR_USE_STE = {"quantized_bits", "quantized_relu", "quantized_po2",
                "quantized_relu_po2"}

F_GRID = [0.0, 0.125, 0.25, 1.0 / 3.0, 0.5, 0.7, 0.9, 1.0]


# ---------------------------------------------------------------------------
# option lattice


def lattice(tier):
  quick = tier == "quick"
  cfgs = []

  def add(cls, kw, use_ste):
    cfgs.append({"cls": cls, "kw": kw, "use_ste": use_ste})

  bits_l = [1, 2, 4, 8] if quick else [1, 2, 3, 4, 6, 8, 16]
  ints_l = [0, 2] if quick else [0, 1, 2, 3]
  alphas = [None, 2.0, "auto", "auto_po2"]
  for b, i, kn, sym, a in itertools.product(bits_l, ints_l, [True, False],
                                            [0, 1], alphas):
    if i > b - int(kn):
      continue
    if isinstance(a, str):
      # data-dependent scale: documented as symmetric only; needs at least
      # one magnitude bit and a signed format
      if not kn or b < 2 or sym == 0:
        continue
    if quick and a == 2.0 and (sym == 1 or not kn):
      continue
    kw = {"bits": b, "integer": i, "symmetric": sym, "keep_negative": kn,
          "alpha": a}
    for ste in (True, False):
      add("quantized_bits", dict(kw), ste)
    add("quantized_linear", dict(kw), None)

  rb = [2, 4, 8] if quick else [2, 3, 4, 6, 8, 12]
  for b, i, sg, sl, clip in itertools.product(rb, [0, 2], [0, 1], [0.0, 0.25],
                                              ["q", "none", "ub"]):
    if i > b:
      continue
    if quick and sg == 1 and (clip != "q" or b == 8):
      continue
    kw = {"bits": b, "integer": i, "use_sigmoid": sg, "negative_slope": sl}
    if clip == "none":
      kw["is_quantized_clip"] = False
    elif clip == "ub":
      kw["is_quantized_clip"] = False
      kw["relu_upper_bound"] = float(2.0 ** i * 0.75)
    for ste in (True, False):
      add("quantized_relu", dict(kw), ste)

  pb = [2, 4, 6] if quick else [2, 3, 4, 5, 6, 8]
  for b, mv, qa, lr in itertools.product(pb, [None, 1.0, 4.0], [False, True],
                                         ["rnd", "floor"]):
    if quick and lr == "floor" and qa:
      continue
    kw = {"bits": b, "max_value": mv, "quadratic_approximation": qa,
          "log2_rounding": lr}
    for ste in (True, False):
      add("quantized_po2", dict(kw), ste)
      for sl in (0.0, 0.25):
        if quick and sl and (qa or lr == "floor"):
          continue
        add("quantized_relu_po2", dict(kw, negative_slope=sl), ste)

  for b, i, (sh, ub) in itertools.product([4, 8], [1, 3], [(3, 6), (1, 2)]):
    kw = {"bits": b, "integer": i, "relu_shift": sh, "relu_upper_bound": ub}
    for ste in (True, False):
      add("quantized_hswish", dict(kw), ste)
  return cfgs


def variant(cfg):
  """Coarse option family of a config (used in failure signatures)."""
  kw, c = cfg["kw"], cfg["cls"]
  if c in ("quantized_bits", "quantized_linear"):
    a = kw.get("alpha")
    v = "alpha_none" if a is None else (a if isinstance(a, str) else "alpha_const")
    if kw.get("bits", 8) - int(kw.get("keep_negative", True)) == 0:
      v += "+sign"
    return v
  if c == "quantized_relu":
    v = "sigmoid" if kw.get("use_sigmoid") else "plain"
    if kw.get("negative_slope"):
      v += "+leaky"
    if not kw.get("is_quantized_clip", True):
      v += "+ub" if kw.get("relu_upper_bound") is not None else "+unclipped"
    return v
  if c in ("quantized_po2", "quantized_relu_po2"):
    v = "max" if kw.get("max_value") is not None else "nomax"
    if kw.get("negative_slope"):
      v += "+leaky"
    return v
  return "hswish"


def build(cfg, qnoise_factor=None, use_ste=None, use_variables=None):
  """Constructs the quantizer of `cfg` (learning phase 0, hard sigmoid are
  asserted by the caller).  qnoise_factor/use_ste/use_variables override."""
  from qkeras import quantizers as Q  # pylint: disable=g-import-not-at-top
  kw = dict(cfg["kw"])
  if qnoise_factor is not None:
    kw["qnoise_factor"] = qnoise_factor
  if use_variables is not None:
    kw["use_variables"] = use_variables
  ste = cfg.get("use_ste") if use_ste is None else use_ste
  if cfg["cls"] in CTOR_USE_STE and ste is not None:
    kw["use_ste"] = bool(ste)
  q = getattr(Q, cfg["cls"])(**kw)
  if cfg["cls"] == "quantized_hswish" and ste is not None:
    # no constructor option; the attribute is what QNoiseScheduler sets
    q.use_ste = bool(ste)
  return q


def has_ste(cfg):
  return cfg["cls"] != "quantized_linear"


def call(q, x32):
  import tensorflow as tf  # pylint: disable=g-import-not-at-top
  return np.asarray(q(tf.constant(np.asarray(x32, dtype=F32))).numpy(),
                    dtype=F32)


# ---------------------------------------------------------------------------
# closed-form surrogate (the "unquantized activation" of the docstrings)


def surrogate(cfg, x32):
  """Returns (values float64, exact: bool) or (None, None) where the
  documentation does not pin the unquantized activation down."""
  kw, c = cfg["kw"], cfg["cls"]
  x = np.asarray(x32, dtype=F32)
  if c in ("quantized_bits", "quantized_linear", "quantized_po2"):
    return x.astype(np.float64), True
  if c == "quantized_relu":
    if kw.get("use_sigmoid"):
      return None, None
    sl = F32(kw.get("negative_slope", 0.0))
    y = np.where(x >= 0, x, sl * x).astype(F32)
    b, i = kw.get("bits", 8), kw.get("integer", 0)
    if kw.get("is_quantized_clip", True):
      nsb = b - (1 if sl != 0 else 0)
      top = F32(2.0 ** i - 2.0 ** (i - nsb))
      y = np.where(x <= top, y, top)
    elif kw.get("relu_upper_bound") is not None:
      top = F32(kw["relu_upper_bound"])
      y = np.where(x <= top, y, top)
    return y.astype(np.float64), True
  if c == "quantized_relu_po2":
    sl = F32(kw.get("negative_slope", 0.0))
    y = np.where(x >= 0, x, sl * x).astype(F32)
    if kw.get("max_value") is not None:
      top = F32(kw["max_value"])
      y = np.where(x <= top, y, top)
    return y.astype(np.float64), True
  if c == "quantized_hswish":
    x64 = x.astype(np.float64)
    sh, ub = float(kw.get("relu_shift", 3)), float(kw.get("relu_upper_bound", 6))
    return x64 * np.clip(x64 + sh, 0.0, ub) / ub, False
  raise ValueError(c)


# ---------------------------------------------------------------------------
# tensors

PROBE = [0.0, 0.001, -0.001, 0.3, -0.3, 0.7, -0.7, 1.0, -1.0, 1.3, -1.6, 2.5,
         -3.2, 5.1, 7.9, -8.4, 17.3, -40.2, 100.7, 0.0625, -0.19, 0.5, 1.5,
         -0.0]
PROBE_SHAPE = [4, 6]


def clean(vals):
  """float32 values, no denormal-range magnitudes (keeps slope*x exact)."""
  out = []
  for v in vals:
    v = float(F32(v))
    if not np.isfinite(v) or abs(v) < 1e-30:
      v = 0.0
    out.append(v)
  return out


def tensor_strategy(max_elems=24):
  from hypothesis import strategies as st  # pylint: disable=g-import-not-at-top
  elem = st.one_of(
      st.floats(min_value=-8, max_value=8, width=32, allow_nan=False),
      st.floats(min_value=-300, max_value=300, width=32, allow_nan=False),
      st.sampled_from([0.0, -0.0, 0.5, -0.5, 1.0, -1.0, 0.25, 0.375, 1.5, 2.0,
                       -4.0, 3.0, 6.0, -3.0, 0.9375, 63.5, 1e-3, -1e-3, 1e-6]))
  shape = st.sampled_from([[1], [3], [6], [2, 3], [3, 4], [1, 5], [2, 2, 3],
                           [1, 2, 2, 2]])

  @st.composite
  def t(draw):
    shp = draw(shape)
    n = int(np.prod(shp))
    vals = draw(st.lists(elem, min_size=n, max_size=n))
    return {"shape": shp, "xs": clean(vals)}
  return t()


def cfg_strategy(cfgs):
  """Class first, then a configuration of that class (so that small classes
  such as quantized_hswish are not drowned by the big ones)."""
  from hypothesis import strategies as st  # pylint: disable=g-import-not-at-top
  by_cls = {}
  for c in cfgs:
    by_cls.setdefault(c["cls"], []).append(c)
  return st.sampled_from(sorted(by_cls)).flatmap(
      lambda k: st.sampled_from(by_cls[k]))


def f_strategy():
  from hypothesis import strategies as st  # pylint: disable=g-import-not-at-top
  return st.one_of(
      st.sampled_from(F_GRID),
      st.integers(0, 1024).map(lambda k: k / 1024.0),
      st.floats(min_value=0.0, max_value=1.0, allow_nan=False).map(
          lambda v: 0.0 if v < 1e-6 else float(v)))


# ---------------------------------------------------------------------------
# stub models for the scheduler (Part C)

NONKNOB_Q = [
    {"cls": "binary", "kw": {}},
    {"cls": "binary", "kw": {"alpha": 1.0}},
    {"cls": "ternary", "kw": {}},
    {"cls": "stochastic_ternary", "kw": {}},
    {"cls": "stochastic_binary", "kw": {}},
    {"cls": "quantized_tanh", "kw": {"bits": 4}},
    {"cls": "quantized_sigmoid", "kw": {"bits": 4}},
    {"cls": "bernoulli", "kw": {}},
    {"cls": "quantized_ulaw", "kw": {"bits": 4}},
]

KNOB_Q = [
    {"cls": "quantized_bits", "kw": {"bits": 4, "integer": 1}},
    {"cls": "quantized_bits", "kw": {"bits": 8, "integer": 0, "symmetric": 1,
                                     "alpha": 1.0}},
    {"cls": "quantized_bits", "kw": {"bits": 3, "integer": 0, "symmetric": 1,
                                     "alpha": "auto"}},
    {"cls": "quantized_bits", "kw": {"bits": 6, "integer": 2,
                                     "qnoise_factor": 0.5}},
    {"cls": "quantized_bits", "kw": {"bits": 4, "integer": 0,
                                     "use_ste": False}},
    {"cls": "quantized_relu", "kw": {"bits": 4, "integer": 1}},
    {"cls": "quantized_relu", "kw": {"bits": 6, "integer": 2,
                                     "negative_slope": 0.25}},
    {"cls": "quantized_relu", "kw": {"bits": 4, "integer": 0,
                                     "use_ste": False, "qnoise_factor": 0.25}},
    {"cls": "quantized_po2", "kw": {"bits": 4}},
    {"cls": "quantized_po2", "kw": {"bits": 4, "max_value": 1.0}},
    {"cls": "quantized_relu_po2", "kw": {"bits": 4}},
    {"cls": "quantized_relu_po2", "kw": {"bits": 4, "negative_slope": 0.25}},
    {"cls": "quantized_hswish", "kw": {"bits": 6, "integer": 2}},
    {"cls": "quantized_linear", "kw": {"bits": 4, "integer": 1}},
    {"cls": "quantized_linear", "kw": {"bits": 8, "integer": 2,
                                       "qnoise_factor": 0.5}},
    {"cls": "quantized_linear", "kw": {"bits": 3, "integer": 0,
                                       "alpha": "auto"}},
]
ACT_KNOB_Q = [q for q in KNOB_Q if q["cls"] in
              ("quantized_relu", "quantized_relu_po2", "quantized_bits",
               "quantized_hswish", "quantized_linear")]


def qspec_to_string(qs):
  args = ",".join("%s=%r" % (k, v) for k, v in sorted(qs["kw"].items()))
  return "%s(%s)" % (qs["cls"], args)


def make_q(qs):
  """qspec -> constructor argument (None, a string, or a quantizer object)."""
  if qs is None:
    return None
  if qs.get("as_str"):
    return qspec_to_string(qs)
  from qkeras import quantizers as Q  # pylint: disable=g-import-not-at-top
  return getattr(Q, qs["cls"])(**qs["kw"])


# attributes under which a layer kind holds quantizer objects (public layer
# attributes; 'activation' is the quantizer passed as activation=...)
LAYER_SLOTS = {
    "QDense": ["kernel_quantizer_internal", "bias_quantizer_internal",
               "activation"],
    "QConv2D": ["kernel_quantizer_internal", "bias_quantizer_internal",
                "activation"],
    "QActivation": ["quantizer"],
    "QAveragePooling2D": ["average_quantizer_internal", "activation"],
    "QBatchNormalization": ["gamma_quantizer_internal",
                            "beta_quantizer_internal",
                            "mean_quantizer_internal",
                            "variance_quantizer_internal"],
    "Dense": [], "ReLU": [],
}


def build_layer(spec):
  import tensorflow as tf  # pylint: disable=g-import-not-at-top
  import qkeras  # pylint: disable=g-import-not-at-top
  k = spec["kind"]
  if k == "QDense":
    return qkeras.QDense(3, kernel_quantizer=make_q(spec.get("kq")),
                         bias_quantizer=make_q(spec.get("bq")),
                         activation=make_q(spec.get("act")))
  if k == "QConv2D":
    return qkeras.QConv2D(2, 2, kernel_quantizer=make_q(spec.get("kq")),
                          bias_quantizer=make_q(spec.get("bq")),
                          activation=make_q(spec.get("act")))
  if k == "QActivation":
    return qkeras.QActivation(make_q(spec["q"]))
  if k == "QAveragePooling2D":
    return qkeras.QAveragePooling2D(average_quantizer=make_q(spec.get("q")),
                                    activation=make_q(spec.get("act")))
  if k == "QBatchNormalization":
    return qkeras.QBatchNormalization()
  if k == "Dense":
    return tf.keras.layers.Dense(2)
  if k == "ReLU":
    return tf.keras.layers.ReLU()
  raise ValueError(k)


def model_strategy():
  from hypothesis import strategies as st  # pylint: disable=g-import-not-at-top

  def wq(pool, allow_str=True):
    return st.builds(
        lambda q, s: dict(q, as_str=bool(s and allow_str)),
        st.sampled_from(pool), st.booleans())

  knob = wq(KNOB_Q)
  knob_nolin = knob     # quantized_linear takes part like every other class
  nonknob = wq(NONKNOB_Q)
  anyq = st.one_of(st.none(), knob_nolin, knob_nolin, nonknob, knob)
  wgt = st.one_of(st.none(), knob_nolin, knob_nolin, nonknob)
  act = st.one_of(st.none(), st.none(), wq(ACT_KNOB_Q), nonknob)
  layer = st.one_of(
      st.builds(lambda kq, bq, a: {"kind": "QDense", "kq": kq, "bq": bq,
                                   "act": a}, wgt, wgt, act),
      st.builds(lambda kq, bq, a: {"kind": "QConv2D", "kq": kq, "bq": bq,
                                   "act": a}, wgt, wgt, act),
      st.builds(lambda q: {"kind": "QActivation", "q": q},
                st.one_of(knob_nolin, knob_nolin, knob_nolin, nonknob, knob)),
      st.builds(lambda q, a: {"kind": "QAveragePooling2D", "q": q, "act": a},
                anyq, act),
      st.just({"kind": "QBatchNormalization"}),
      st.sampled_from([{"kind": "Dense"}, {"kind": "ReLU"}]))
  # at least one layer that certainly holds a knob quantizer where the
  # scheduler documents to look (layer.quantizers / layer.quantizer)
  sure = st.one_of(
      st.builds(lambda q: {"kind": "QActivation", "q": q}, knob_nolin),
      st.builds(lambda kq, bq, a: {"kind": "QDense", "kq": kq, "bq": bq,
                                   "act": a}, knob_nolin, wgt, act),
      st.builds(lambda kq, bq, a: {"kind": "QConv2D", "kq": kq, "bq": bq,
                                   "act": a}, wgt, knob_nolin, act))
  return st.builds(
      lambda first, rest, k, with_sure: (
          (rest[:k % (len(rest) + 1)] + [first] + rest[k % (len(rest) + 1):])
          if with_sure else (rest or [first])),
      sure, st.lists(layer, min_size=0, max_size=3), st.integers(0, 3),
      st.sampled_from([True, True, True, True, True, False]))


def sched_strategy():
  from hypothesis import strategies as st  # pylint: disable=g-import-not-at-top
  return st.builds(
      lambda start, d, ft, uf, ini, ex, ste: {
          "start": start, "finish": start + d, "freq_type": ft,
          "update_freq": uf, "initial_step_or_epoch": ini, "exponent": ex,
          "use_ste": ste},
      st.integers(0, 6), st.sampled_from([3, 5, 2, 8, 4, 1, 6, 0]),
      st.sampled_from(["step", "epoch"]),
      st.sampled_from([1, 1, 1, 2, 3, 4]), st.sampled_from([0, 0, 0, 1, 2, 5]),
      st.sampled_from([3.0, 1.0, 2.0, 0.5, 4.5, 2]), st.booleans())


# ---------------------------------------------------------------------------
# real training runs (Part D)

FIT_IN, FIT_UNITS, FIT_BATCH = 5, 4, 8

FIT_MODELS = [
    # QDense(kernel, bias) -> QActivation
    [{"kind": "QDense",
      "kq": {"cls": "quantized_bits", "kw": {"bits": 3, "integer": 0,
                                             "symmetric": 1, "alpha": 1.0}},
      "bq": {"cls": "quantized_bits", "kw": {"bits": 3, "integer": 0,
                                             "symmetric": 1, "alpha": 1.0}}},
     {"kind": "QActivation",
      "q": {"cls": "quantized_relu", "kw": {"bits": 3, "integer": 1}}}],
    [{"kind": "QDense",
      "kq": {"cls": "quantized_po2", "kw": {"bits": 4}}, "bq": None},
     {"kind": "QActivation",
      "q": {"cls": "quantized_bits", "kw": {"bits": 4, "integer": 1},
            "as_str": True}}],
    [{"kind": "QActivation",
      "q": {"cls": "quantized_relu", "kw": {"bits": 4, "integer": 1,
                                            "negative_slope": 0.25,
                                            "use_ste": False}}},
     {"kind": "QDense",
      "kq": {"cls": "quantized_bits", "kw": {"bits": 4, "integer": 0,
                                             "symmetric": 1}},
      "bq": {"cls": "quantized_bits", "kw": {"bits": 4, "integer": 1,
                                             "qnoise_factor": 0.5}}},
     {"kind": "QActivation",
      "q": {"cls": "quantized_linear", "kw": {"bits": 4, "integer": 1}}}],
    [{"kind": "QDense",
      "kq": {"cls": "quantized_linear", "kw": {"bits": 4, "integer": 0,
                                               "alpha": 1.0}},
      "bq": {"cls": "ternary", "kw": {}}},
     {"kind": "QActivation",
      "q": {"cls": "quantized_relu_po2", "kw": {"bits": 4}}}],
]

FIT_SCHEDS = [
    {"start": 1, "finish": 3, "update_freq": 1, "initial_step_or_epoch": 0,
     "exponent": 2.0, "use_ste": True},
    {"start": 0, "finish": 4, "update_freq": 2, "initial_step_or_epoch": 1,
     "exponent": 3.0, "use_ste": False},
    {"start": 2, "finish": 2, "update_freq": 1, "initial_step_or_epoch": 0,
     "exponent": 3.0, "use_ste": True},
    {"start": 0, "finish": 6, "update_freq": 3, "initial_step_or_epoch": 0,
     "exponent": 0.5, "use_ste": True},
]


def fit_cases(tier):
  """Deterministic list of Part-D cases."""
  out = []
  ms = FIT_MODELS if tier != "quick" else FIT_MODELS[:3]
  ss = FIT_SCHEDS if tier != "quick" else FIT_SCHEDS[:2]
  k = 0
  for mi, layers in enumerate(ms):
    for sched in ss:
      for ft in ("step", "epoch"):
        for lazy in (True, False):
          if tier == "quick" and not lazy and mi != 0:
            continue     # quick: the pre-built control only for one model
          if ft == "step":
            epochs, spe = 2, 3
          else:
            epochs, spe = 5, 2
          out.append({"part": "D", "layers": layers,
                      "sched": dict(sched, freq_type=ft), "lazy": lazy,
                      "epochs": epochs, "steps_per_epoch": spe,
                      "seed": 100 + k})
          k += 1
  # training continued with a second fit() and the same scheduler; the first
  # fit ends off an update boundary (update_freq 2-3)
  two = [
      ("step", {"start": 0, "finish": 2, "update_freq": 3,
                "initial_step_or_epoch": 0, "exponent": 3.0, "use_ste": True},
       [1, 1], 4, True, 0),      # positions 0..3 | 4..7: 1.0 must be held
      ("step", {"start": 0, "finish": 9, "update_freq": 3,
                "initial_step_or_epoch": 0, "exponent": 2.0, "use_ste": False},
       [1, 1], 4, False, 1),     # a value strictly inside (0,1) must be held
      ("epoch", {"start": 0, "finish": 2, "update_freq": 2,
                 "initial_step_or_epoch": 0, "exponent": 3.0, "use_ste": True},
       [3, 2], 2, True, 1),      # epochs 0..2 | 3..4
      ("epoch", {"start": 1, "finish": 6, "update_freq": 2,
                 "initial_step_or_epoch": 1, "exponent": 1.0, "use_ste": True},
       [2, 3], 1, False, 0),
  ]
  if tier != "quick":
    two = two + [(ft, sc, fits, spe, not lazy, (mi + 1) % len(ms))
                 for ft, sc, fits, spe, lazy, mi in two]
  for ft, sched, fits, spe, lazy, mi in two:
    out.append({"part": "D", "layers": ms[mi],
                "sched": dict(sched, freq_type=ft), "lazy": lazy,
                "epochs": sum(fits), "fits": fits, "steps_per_epoch": spe,
                "seed": 100 + k})
    k += 1
  return out


def fit_data(seed):
  rs = np.random.RandomState(seed)
  x = rs.uniform(-1.5, 1.5, size=(FIT_BATCH, FIT_IN)).astype(F32)
  return x


def build_fit_model(case, probe_cls):
  """Sequential model of real qkeras layers with seeded constant weights,
  ending in a probe layer that records what the (compiled) step computed."""
  import tensorflow as tf  # pylint: disable=g-import-not-at-top
  import qkeras  # pylint: disable=g-import-not-at-top
  rs = np.random.RandomState(case["seed"] + 1)
  layers = []
  if not case["lazy"]:
    layers.append(tf.keras.layers.InputLayer(input_shape=(FIT_IN,)))
  width = FIT_IN
  for spec in case["layers"]:
    if spec["kind"] == "QDense":
      kern = rs.uniform(-1.0, 1.0, size=(width, FIT_UNITS)).astype(F32)
      bias = rs.uniform(-1.0, 1.0, size=(FIT_UNITS,)).astype(F32)
      layers.append(qkeras.QDense(
          FIT_UNITS, kernel_quantizer=make_q(spec.get("kq")),
          bias_quantizer=make_q(spec.get("bq")),
          kernel_initializer=tf.keras.initializers.Constant(kern),
          bias_initializer=tf.keras.initializers.Constant(bias)))
      width = FIT_UNITS
    elif spec["kind"] == "QActivation":
      layers.append(qkeras.QActivation(make_q(spec["q"])))
    else:
      raise ValueError(spec["kind"])
  probe = probe_cls((FIT_BATCH, width))
  layers.append(probe)
  return tf.keras.Sequential(layers), probe, width
