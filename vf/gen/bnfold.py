"""Generators and builders for C15 (batch-norm folding / unfolding).

Case descriptions are plain JSON values.

Layer case ("kind": "layer"): one folded layer
  cls        "conv" (QConv2DBatchnorm) | "dw" (QDepthwiseConv2DBatchnorm)
  mode       folding_mode
  use_bias, center, scale, eps, efd (ema_freeze_delay), act (None|"relu")
  geom       {n,h,w,cin,out,kh,kw,sh,sw,dh,dw,pad}; out = filters (conv) or
             depth_multiplier (dw)
  kq, bq     quantizer strings or None (always with an explicit alpha: the
             layers silently turn alpha=None into "auto_po2")
  bn         {gamma,beta,mean,var}: per output channel lists
  wseed,kscale,xscale   kernel / bias / input come from
             numpy RandomState(wseed) (a drawn value: the case is a value)

Model case ("kind": "unfold" | "quantize"): a small DAG
  input [h,w,c], n, xseed, xscale, nodes [...], outputs [names]
  node ops: fconv/fdw (folded layers, unfold cases), conv/dw/bn (stock
  layers, quantize cases), relu, add, concat.
  quantize cases also carry "q": {style, kq:{conv,dw}, bq:{conv,dw},
  mode:{conv,dw}} from which the quantizer_config dictionary is derived.
"""
import itertools

import numpy as np

F32 = np.float32

MODES = ["ema_stats_folding", "batch_stats_folding"]

# explicit alpha everywhere (see module docstring)
KQ = {
    "none": None,
    "fixed4": "quantized_bits(4,0,1,alpha=1)",
    "fixed8": "quantized_bits(8,2,1,alpha=1)",
    "auto_po2": "quantized_bits(4,0,1,alpha='auto_po2')",
    "auto": "quantized_bits(6,1,1,alpha='auto')",
    "ternary": "ternary(alpha=1)",
    "po2": "quantized_po2(4,2)",
}
BQ = {
    "none": None,
    "fixed8": "quantized_bits(8,3,1,alpha=1)",
    "fixed16": "quantized_bits(16,7,1,alpha=1)",
}
KQ_INV = {v: k for k, v in KQ.items()}
BQ_INV = {v: k for k, v in BQ.items()}

GAMMA = [1.0, 0.0, -1.0, -0.375, 0.001, 0.25, 1.75, 3.0, 20.0, -5.5]
BETA = [0.0, 0.5, -0.5, 2.25, -3.75, 0.01]
MEAN = [0.0, 0.3, -1.25, 2.5, 150.0, -4000.0, 9000.0]
VAR = [1.0, 1e-6, 1e-4, 1e-3, 0.04, 0.5, 3.0, 120.0, 0.0]
EPS = [1e-3, 1e-3, 1e-5, 1e-2, 1.1e-5]


def f32(v):
  return float(F32(v))


def cout_of(cls, cin, out):
  return out if cls == "conv" else cin * out


# --------------------------------------------------------------------------
# Hypothesis strategies


def _st():
  from hypothesis import strategies as st  # pylint: disable=g-import-not-at-top
  return st


def stat_lists(draw, cout):
  st = _st()
  def col(table, lo, hi):
    # magnitudes below 1e-6 are snapped to 0: TensorFlow flushes float32
    # subnormals to zero, which is outside what the property talks about
    return draw(st.lists(
        st.one_of(st.sampled_from(table),
                  st.floats(min_value=lo, max_value=hi, width=32,
                            allow_nan=False).map(
                                lambda v: 0.0 if abs(v) < 1e-6 else v)),
        min_size=cout, max_size=cout))
  return {"gamma": col(GAMMA, -4.0, 4.0), "beta": col(BETA, -4.0, 4.0),
          "mean": col(MEAN, -50.0, 50.0),
          "var": col(VAR, 0.0, 8.0)}


_COLS = {"gamma": (GAMMA, -4.0, 4.0), "beta": (BETA, -4.0, 4.0),
         "mean": (MEAN, -50.0, 50.0), "var": (VAR, 0.0, 8.0)}


def stat_col(draw, what, cout):
  """One BN statistic vector (same value classes as stat_lists)."""
  st = _st()
  table, lo, hi = _COLS[what]
  return draw(st.lists(
      st.one_of(st.sampled_from(table),
                st.floats(min_value=lo, max_value=hi, width=32,
                          allow_nan=False).map(
                              lambda v: 0.0 if abs(v) < 1e-6 else v)),
      min_size=cout, max_size=cout))


def draw_geom(draw, cls, h, w, cin, force_same=False, big=False):
  """Kernel/stride/dilation/padding by construction (never rejected)."""
  st = _st()
  pad = "same" if force_same else draw(st.sampled_from(["valid", "same"]))
  style = draw(st.sampled_from(["plain", "plain", "strided", "dilated"]))
  if force_same and style == "strided":
    style = "plain"
  sh = sw = dh = dw = 1
  if style == "strided":
    sh = draw(st.integers(1, 2))
    sw = sh if cls == "dw" else draw(st.integers(1, 2))
  elif style == "dilated":
    dh = draw(st.integers(1, 2))
    dw = draw(st.integers(1, 2))
  kmax = 4 if big else 3
  if pad == "valid":
    kh = draw(st.integers(1, min(kmax, (h - 1) // dh + 1)))
    kw = draw(st.integers(1, min(kmax, (w - 1) // dw + 1)))
  else:
    kh = draw(st.integers(1, kmax))
    kw = draw(st.integers(1, kmax))
  out = draw(st.integers(1, 4 if cls == "conv" else 2))
  return {"kh": kh, "kw": kw, "sh": sh, "sw": sw, "dh": dh, "dw": dw,
          "pad": pad, "out": out}


def layer_params(draw, cls, cin, geom):
  """Options of one folded layer other than geometry."""
  st = _st()
  cout = cout_of(cls, cin, geom["out"])
  if draw(st.integers(0, 4)) < 2:       # 40%: the pure float oracle (a)
    kqn = bqn = "none"
  else:
    kqn = draw(st.sampled_from(["fixed4", "fixed8", "auto_po2", "auto",
                                "ternary", "po2", "none"]))
    bqn = draw(st.sampled_from(["none", "fixed8", "fixed16"] if kqn != "none"
                               else ["fixed8", "fixed16"]))
  return {
      "mode": draw(st.sampled_from(MODES)),
      "use_bias": draw(st.booleans()),
      "center": draw(st.sampled_from([True, True, True, False])),
      "scale": draw(st.booleans()),
      "eps": draw(st.sampled_from(EPS)),
      "efd": draw(st.sampled_from([None, None, 5, -1])),
      "kq": KQ[kqn], "bq": BQ[bqn],
      "bn": stat_lists(draw, cout),
      "wseed": draw(st.integers(0, 2 ** 20)),
      "kscale": draw(st.sampled_from([0.05, 0.5, 2.0])),
  }


def layer_case_strategy(tier):
  st = _st()
  big = tier != "quick"

  @st.composite
  def s(draw):
    cls = draw(st.sampled_from(["conv", "dw"]))
    h = draw(st.integers(1, 9 if big else 7))
    w = draw(st.integers(1, 9 if big else 7))
    cin = draw(st.integers(1, 5 if big else 3))
    n = draw(st.integers(1, 2))
    g = draw_geom(draw, cls, h, w, cin, big=big)
    g.update(n=n, h=h, w=w, cin=cin)
    case = {"kind": "layer", "cls": cls, "geom": g,
            "act": draw(st.sampled_from([None, None, "relu"])),
            "xscale": draw(st.sampled_from([1.0, 8.0, 0.1]))}
    case.update(layer_params(draw, cls, cin, g))
    return case
  return s()


def lattice_cases(tier):
  """Deterministic option cross product: every (cls, mode, use_bias, center,
  scale, quantizer family) combination with geometry / statistics cycling
  through fixed tables (each case contains zero and negative gamma, a tiny
  variance and a large mean as far as it has channels)."""
  geoms = [
      dict(n=1, h=5, w=5, cin=2, out=3, kh=2, kw=2, sh=1, sw=1, dh=1, dw=1, pad="valid"),
      dict(n=2, h=6, w=4, cin=3, out=2, kh=3, kw=2, sh=2, sw=2, dh=1, dw=1, pad="same"),
      dict(n=1, h=7, w=7, cin=2, out=2, kh=2, kw=3, sh=1, sw=1, dh=2, dw=2, pad="valid"),
      dict(n=1, h=4, w=6, cin=1, out=4, kh=3, kw=3, sh=1, sw=1, dh=1, dw=1, pad="same"),
      dict(n=2, h=3, w=3, cin=3, out=1, kh=1, kw=1, sh=1, sw=1, dh=1, dw=1, pad="valid"),
      dict(n=1, h=6, w=6, cin=2, out=2, kh=3, kw=3, sh=1, sw=1, dh=2, dw=1, pad="same"),
  ]
  qf = [("none", "none"), ("fixed4", "none"), ("auto_po2", "fixed8"),
        ("fixed8", "fixed16")]
  if tier != "quick":
    qf += [("ternary", "none"), ("po2", "fixed16"), ("auto", "fixed8"),
           ("none", "fixed8")]
  out = []
  idx = 0
  for cls, mode, ub, center, scale, (kqn, bqn) in itertools.product(
      ["conv", "dw"], MODES, [True, False], [True, False], [True, False], qf):
    g = dict(geoms[idx % len(geoms)])
    if cls == "dw":
      g["out"] = 1 + (g["out"] % 2)
    cout = cout_of(cls, g["cin"], g["out"])
    rot = lambda t, o: [t[(idx * 3 + o + i) % len(t)] for i in range(cout)]  # pylint: disable=cell-var-from-loop
    bn = {"gamma": [GAMMA[(1 + idx + i) % len(GAMMA)] for i in range(cout)],
          "beta": rot(BETA, 1),
          "mean": [MEAN[(4 + idx + i) % len(MEAN)] for i in range(cout)],
          "var": [VAR[(1 + idx + i) % len(VAR)] for i in range(cout)]}
    out.append({"kind": "layer", "cls": cls, "geom": g,
                "act": "relu" if idx % 5 == 3 else None,
                "xscale": 1.0, "mode": mode, "use_bias": ub, "center": center,
                "scale": scale, "eps": EPS[idx % len(EPS)],
                "efd": [None, 5][idx % 2], "kq": KQ[kqn], "bq": BQ[bqn],
                "bn": bn, "wseed": 1000 + idx,
                "kscale": [0.5, 0.05, 2.0][idx % 3]})
    idx += 1
  return out


# ---- model (DAG) cases ----------------------------------------------------


class _Dag(object):
  """Tracks tensor shapes while a model description is drawn."""

  def __init__(self, h, w, c):
    self.nodes = []
    self.shape = {"in": (h, w, c)}
    self.k = 0

  def name(self, p):
    self.k += 1
    return "%s%d" % (p, self.k)

  def add(self, node, shape):
    self.nodes.append(node)
    self.shape[node["name"]] = shape
    return node["name"]


def _conv_shape(shape, cls, g):
  from vf.ref import bnfold as R  # pylint: disable=g-import-not-at-top
  h, w, c = shape
  oh = R._out_and_pad(h, g["kh"], g["sh"], g["dh"], g["pad"])[0]  # pylint: disable=protected-access
  ow = R._out_and_pad(w, g["kw"], g["sw"], g["dw"], g["pad"])[0]  # pylint: disable=protected-access
  return (oh, ow, cout_of(cls, c, g["out"]))


def _draw_conv(draw, dag, src, kind, force_same=False, geom=None, cls=None,
               with_bn=None):
  """Adds a conv slot reading `src`.  kind == "unfold": one folded layer.
  kind == "quantize": stock conv/dw, optionally followed by a stock BN.
  Returns (output name, geom, cls)."""
  st = _st()
  h, w, c = dag.shape[src]
  cls = cls or draw(st.sampled_from(["conv", "dw"]))
  g = geom or draw_geom(draw, cls, h, w, c, force_same=force_same)
  shp = _conv_shape((h, w, c), cls, g)
  if kind == "unfold":
    p = layer_params(draw, cls, c, g)
    p["center"] = draw(st.integers(0, 3)) != 3
    node = {"name": dag.name("f"), "op": "f" + cls, "inputs": [src],
            "geom": g, "act": draw(st.sampled_from([None, None, "relu"]))}
    node.update(p)
    return dag.add(node, shp), g, cls
  node = {"name": dag.name("c"), "op": cls, "inputs": [src], "geom": g,
          "use_bias": draw(st.booleans()),
          "wseed": draw(st.integers(0, 2 ** 20)),
          "kscale": draw(st.sampled_from([0.05, 0.5, 2.0]))}
  o = dag.add(node, shp)
  if with_bn is None:
    with_bn = draw(st.integers(0, 4)) > 0
  if with_bn:
    o = _draw_bn(draw, dag, o)
  return o, g, cls


def _draw_bn(draw, dag, src):
  st = _st()
  shp = dag.shape[src]
  node = {"name": dag.name("b"), "op": "bn", "inputs": [src],
          "center": draw(st.sampled_from([True, True, False])),
          "scale": draw(st.sampled_from([True, True, False])),
          "eps": draw(st.sampled_from([1e-3, 1e-3, 1e-3, 1e-5, 1e-2])),
          "bn": stat_lists(draw, shp[2])}
  return dag.add(node, shp)


def _stock_flavour(draw, nd):
  """Unfold cases only: make a stock conv / BN frozen (trainable=False) or a
  BN statistics-only (center=False, scale=False)."""
  st = _st()
  if nd["op"] == "bn":
    f = draw(st.sampled_from(["stats_only", "frozen", "plain", "stats_only"]))
    if f == "stats_only":
      nd["center"] = nd["scale"] = False
    elif f == "frozen":
      nd["trainable"] = False
  elif nd["op"] in ("conv", "dw"):
    if draw(st.booleans()):
      nd["trainable"] = False


def _relu(dag, src):
  return dag.add({"name": dag.name("r"), "op": "relu", "inputs": [src]},
                 dag.shape[src])


def model_case_strategy(kind, tier):
  st = _st()

  @st.composite
  def s(draw):
    h = draw(st.integers(3, 7))
    w = draw(st.integers(3, 7))
    c = draw(st.integers(1, 3))
    dag = _Dag(h, w, c)
    tmpl = draw(st.sampled_from(["seq", "seq", "branch", "shared"]))
    if tmpl == "seq":
      src = "in"
      if kind == "unfold" and draw(st.booleans()):
        # stock conv (+BN) in front: unfold_model must carry their weights over
        src, _, _ = _draw_conv(draw, dag, "in", "quantize",
                               with_bn=draw(st.booleans()))
        for nd in dag.nodes:
          _stock_flavour(draw, nd)
      o, _, _ = _draw_conv(draw, dag, src, kind)
      if draw(st.booleans()):
        o = _relu(dag, o)
      if draw(st.booleans()) and min(dag.shape[o][:2]) >= 1:
        o, _, _ = _draw_conv(draw, dag, o, kind)
      outs = [o]
    elif tmpl == "branch":
      a, g, cls = _draw_conv(draw, dag, "in", kind, with_bn=True)
      if draw(st.booleans()):
        a = _relu(dag, a)
      b, _, _ = _draw_conv(draw, dag, "in", kind, geom=dict(g), cls=cls)
      merge = draw(st.sampled_from(["add", "concat"]))
      sa, sb = dag.shape[a], dag.shape[b]
      shp = sa if merge == "add" else (sa[0], sa[1], sa[2] + sb[2])
      o = dag.add({"name": dag.name("m"), "op": merge, "inputs": [a, b]}, shp)
      tail = draw(st.sampled_from(["none", "bn", "conv"]))
      if tail == "bn" and kind == "quantize":
        o = _draw_bn(draw, dag, o)       # BN after a merge: never folded
      elif tail == "conv":
        o, _, _ = _draw_conv(draw, dag, o, kind)
      outs = [o]
    else:
      # "shared": the conv output has two consumers (BN and relu) in the
      # quantize kind -> must not be folded; for unfold: two outputs
      if kind == "quantize":
        c1, _, _ = _draw_conv(draw, dag, "in", kind, with_bn=False)
        bname = _draw_bn(draw, dag, c1)
        r = _relu(dag, c1)
        o = dag.add({"name": dag.name("m"), "op": "add",
                     "inputs": [bname, r]}, dag.shape[c1])
        if draw(st.booleans()):
          o, _, _ = _draw_conv(draw, dag, o, kind, with_bn=True)
        outs = [o]
      else:
        a, _, _ = _draw_conv(draw, dag, "in", kind)
        b, _, _ = _draw_conv(draw, dag, a, kind)
        r = _relu(dag, a)
        outs = [b, r]
    if kind == "unfold" and draw(st.booleans()):
      # stock layer behind the folded part: frozen conv / frozen BN /
      # statistics-only BN (no trainable weights at all)
      n0 = len(dag.nodes)
      if draw(st.booleans()):
        outs[0] = _draw_bn(draw, dag, outs[0])
      else:
        outs[0], _, _ = _draw_conv(draw, dag, outs[0], "quantize",
                                   with_bn=False)
      for nd in dag.nodes[n0:]:
        _stock_flavour(draw, nd)
    case = {"kind": kind, "input": [h, w, c], "n": draw(st.integers(1, 2)),
            "xseed": draw(st.integers(0, 2 ** 20)),
            "xscale": draw(st.sampled_from([1.0, 8.0])),
            "nodes": dag.nodes, "outputs": outs}
    if kind == "quantize":
      kqs = ["fixed4", "fixed8", "auto_po2", "ternary", "po2"]
      case["q"] = {
          "style": draw(st.sampled_from(["class", "class", "fallback", "name",
                                         "partial"])),
          "kq": {"conv": KQ[draw(st.sampled_from(kqs))],
                 "dw": KQ[draw(st.sampled_from(kqs))]},
          "bq": {"conv": BQ[draw(st.sampled_from(list(BQ)))],
                 "dw": BQ[draw(st.sampled_from(list(BQ)))]},
          "mode": {"conv": draw(st.sampled_from([None] + MODES)),
                   "dw": draw(st.sampled_from([None] + MODES))},
      }
    return case
  return s()


MUTABLE = ["mean", "var", "gamma", "beta", "kernel", "bias"]


def history_case_strategy(tier):
  """One folded layer in a one-layer functional model + a list of steps run
  on that SAME instance.  Observation steps: call, gfw (get_folded_weights),
  unfold (unfold_model), save_qweights (model_save_quantized_weights);
  populate = populate_bias_quantizer_from_accumulator(model,
  [quantized_bits(8,0,1)]);
  mutation steps: set_weights (all parameters incl. BN statistics, iteration
  unchanged), assign (one variable).  The oracle adds call+gfw+unfold at the
  end."""
  st = _st()

  @st.composite
  def s(draw):
    cls = draw(st.sampled_from(["conv", "dw"]))
    h = draw(st.integers(2, 6))
    w = draw(st.integers(2, 6))
    cin = draw(st.integers(1, 3))
    g = draw_geom(draw, cls, h, w, cin)
    node = {"name": "f1", "op": "f" + cls, "inputs": ["in"], "geom": g,
            "act": draw(st.sampled_from([None, None, "relu"]))}
    node.update(layer_params(draw, cls, cin, g))
    cout = cout_of(cls, cin, g["out"])
    nsteps = draw(st.integers(2, 6 if tier == "quick" else 10))
    steps = []
    for _ in range(nsteps):
      op = draw(st.sampled_from(["gfw", "unfold", "call", "set_weights",
                                 "assign", "assign", "set_weights", "gfw",
                                 "save_qweights", "populate"]))
      if op == "set_weights":
        steps.append({"op": op, "wseed": draw(st.integers(0, 2 ** 20)),
                      "kscale": draw(st.sampled_from([0.05, 0.5, 2.0])),
                      "bn": stat_lists(draw, cout)})
      elif op == "assign":
        what = draw(st.sampled_from(MUTABLE))
        stp = {"op": op, "what": what}
        if what in _COLS:
          stp["vals"] = stat_col(draw, what, cout)
        else:
          stp["seed"] = draw(st.integers(0, 2 ** 20))
        steps.append(stp)
      else:
        steps.append({"op": op})
    if draw(st.booleans()):
      # populate_bias_quantizer_from_accumulator on a layer created without
      # bias quantizer (needs a quantized kernel), followed by observations
      if node["kq"] is None:
        node["kq"] = KQ[draw(st.sampled_from(
            ["fixed4", "fixed8", "auto_po2", "auto", "ternary", "po2"]))]
      node["bq"] = None
      pos = draw(st.integers(0, len(steps)))
      steps.insert(pos, {"op": "populate"})
      steps.insert(pos + 1, {"op": draw(st.sampled_from(["call", "unfold"]))})
    return {"kind": "history", "input": [h, w, cin],
            "n": draw(st.integers(1, 2)),
            "xseed": draw(st.integers(0, 2 ** 20)),
            "xscale": draw(st.sampled_from([1.0, 8.0])),
            "nodes": [node], "outputs": ["f1"], "steps": steps}
  return s()


def fixed_history_cases():
  """Deterministic histories, two per class (quantized / float): query and
  unfold, load a second parameter set with the same iteration, re-calibrate
  BN statistics in place, assign every other variable, each followed by
  observations."""
  out = []
  idx = 0
  for cls in ("conv", "dw"):
    for kqn, bqn, mode in (("fixed4", "fixed8", MODES[0]),
                           ("none", "none", MODES[1]),
                           ("fixed8", "populate", MODES[1])):
      outc = 3 if cls == "conv" else 2
      cin = 2
      cout = cout_of(cls, cin, outc)
      rot = lambda t, o: [t[(o + i) % len(t)] for i in range(cout)]
      node = {"name": "f1", "op": "f" + cls, "inputs": ["in"],
              "geom": {"kh": 2, "kw": 2, "sh": 1, "sw": 1, "dh": 1, "dw": 1,
                       "pad": "same", "out": outc},
              "act": None, "mode": mode, "use_bias": True, "center": True,
              "scale": True, "eps": 1e-3, "efd": None, "kq": KQ[kqn],
              "bq": BQ.get(bqn),
              "bn": {"gamma": rot(GAMMA, 5), "beta": rot(BETA, 1),
                     "mean": rot(MEAN, 1), "var": rot(VAR, 3)},
              "wseed": 50 + idx, "kscale": 0.5}
      steps = [
          {"op": "gfw"}, {"op": "call"}, {"op": "unfold"},
          {"op": "set_weights", "wseed": 70 + idx, "kscale": 0.5,
           "bn": {"gamma": rot(GAMMA, 2), "beta": rot(BETA, 3),
                  "mean": rot(MEAN, 2), "var": rot(VAR, 4)}},
          {"op": "gfw"}, {"op": "call"}, {"op": "unfold"},
          {"op": "assign", "what": "mean", "vals": rot(MEAN, 3)},
          {"op": "assign", "what": "var", "vals": rot(VAR, 1)},
          {"op": "gfw"},
          {"op": "assign", "what": "gamma", "vals": rot(GAMMA, 0)},
          {"op": "unfold"},
          {"op": "assign", "what": "kernel", "seed": 90 + idx},
          {"op": "save_qweights"}, {"op": "gfw"},
          {"op": "assign", "what": "beta", "vals": rot(BETA, 2)},
          {"op": "gfw"},
          {"op": "assign", "what": "bias", "seed": 91 + idx},
      ]
      if bqn == "populate":
        # layer created without bias quantizer; the accumulator-derived one
        # is populated, then everything is observed, re-parameterised and
        # populated again (must then keep the quantizer)
        steps = [{"op": "call"}, {"op": "populate"}, {"op": "call"},
                 {"op": "gfw"}, {"op": "unfold"}, steps[3], {"op": "call"},
                 {"op": "populate"}, {"op": "unfold"}]
      out.append({"kind": "history", "input": [4, 4, cin], "n": 2,
                  "xseed": 21 + idx, "xscale": 1.0, "nodes": [node],
                  "outputs": ["f1"], "steps": steps})
      idx += 1
  return out


def mixed_case_strategy(tier):
  """57% layer cases, 14% each unfold models, fold/quantize models and
  histories on one folded model instance."""
  st = _st()
  kinds = (["layer"] * 12 + ["unfold"] * 3 + ["quantize"] * 3 +
           ["history"] * 3)

  def pick(k):
    if k == "layer":
      return layer_case_strategy(tier)
    if k == "history":
      return history_case_strategy(tier)
    return model_case_strategy(k, tier)
  return st.sampled_from(kinds).flatmap(pick)


def fixed_model_cases():
  """Hand-written model cases run by every tier (deterministic part): chain,
  two-branch add / concat, shared conv output; both layer kinds."""
  def fl(name, op, src, out, mode, kq=None, bq=None, use_bias=True,
         scale=True, pad="same", k=2, wseed=1, act=None):
    return {"name": name, "op": op, "inputs": [src],
            "geom": {"kh": k, "kw": k, "sh": 1, "sw": 1, "dh": 1, "dw": 1,
                     "pad": pad, "out": out},
            "act": act, "mode": mode, "use_bias": use_bias, "center": True,
            "scale": scale, "eps": 1e-3, "efd": None, "kq": kq, "bq": bq,
            "bn": {"gamma": (GAMMA * 2)[:8], "beta": (BETA * 2)[:8],
                   "mean": (MEAN * 2)[:8], "var": (VAR[1:] * 2)[:8]},
            "wseed": wseed, "kscale": 0.5}

  def trim(case):
    shp = node_shapes(case)
    for nd in case["nodes"]:
      if "bn" in nd:
        c = shp[nd["name"]][2]
        nd["bn"] = {k: v[:c] for k, v in nd["bn"].items()}
    return case

  def cv(name, op, src, out, use_bias=True, pad="same", k=2, wseed=1):
    return {"name": name, "op": op, "inputs": [src],
            "geom": {"kh": k, "kw": k, "sh": 1, "sw": 1, "dh": 1, "dw": 1,
                     "pad": pad, "out": out},
            "use_bias": use_bias, "wseed": wseed, "kscale": 0.5}

  def bn(name, src, eps=1e-3, center=True, scale=True):
    return {"name": name, "op": "bn", "inputs": [src], "center": center,
            "scale": scale, "eps": eps,
            "bn": {"gamma": (GAMMA * 2)[:8], "beta": (BETA * 2)[:8],
                   "mean": (MEAN * 2)[:8], "var": (VAR[1:] * 2)[:8]}}

  def q(style, mc=None, md=None):
    return {"style": style,
            "kq": {"conv": KQ["fixed4"], "dw": KQ["fixed8"]},
            "bq": {"conv": BQ["fixed16"], "dw": BQ["none"]},
            "mode": {"conv": mc, "dw": md}}

  head = {"input": [5, 5, 2], "n": 2, "xseed": 11, "xscale": 1.0}
  relu = lambda n, s: {"name": n, "op": "relu", "inputs": [s]}
  out = []
  for m1, m2 in ((MODES[0], MODES[1]), (MODES[1], MODES[0])):
    out.append(dict(head, kind="unfold", outputs=["f3"], nodes=[
        dict(cv("c0", "conv", "in", 2, wseed=2), trainable=False),
        bn("b0", "c0", eps=1e-2, center=False, scale=False),
        fl("f1", "fconv", "b0", 3, m1, KQ["fixed4"], BQ["fixed8"], wseed=3),
        relu("r2", "f1"),
        fl("f3", "fdw", "r2", 2, m2, KQ["fixed8"], None, use_bias=False,
           pad="valid", wseed=4)]))
    out.append(dict(head, kind="unfold", outputs=["f4"], nodes=[
        fl("f1", "fdw", "in", 2, m1, None, None, wseed=5),
        fl("f2", "fdw", "in", 2, m2, KQ["auto_po2"], BQ["fixed16"],
           scale=False, wseed=6),
        {"name": "m3", "op": "add", "inputs": ["f1", "f2"]},
        fl("f4", "fconv", "m3", 2, m2, None, None, use_bias=False, wseed=7,
           act="relu")]))
    out.append(dict(head, kind="quantize", outputs=["b4"], q=q("class", m1, m2),
                    nodes=[cv("c1", "conv", "in", 3, use_bias=False, wseed=8),
                           bn("b2", "c1"), cv("c3", "dw", "b2", 2, wseed=9),
                           bn("b4", "c3", center=False)]))
    out.append(dict(head, kind="quantize", outputs=["m6"], q=q("fallback", m2, m1),
                    nodes=[cv("c1", "conv", "in", 2, wseed=10), bn("b2", "c1"),
                           relu("r3", "b2"),
                           cv("c4", "conv", "in", 2, wseed=12),
                           bn("b5", "c4", scale=False),
                           {"name": "m6", "op": "add", "inputs": ["r3", "b5"]}]))
    out.append(dict(head, kind="quantize", outputs=["b6"], q=q("name", m1, m1),
                    nodes=[cv("c1", "dw", "in", 1, wseed=13),
                           bn("b2", "c1"), relu("r3", "c1"),
                           {"name": "m4", "op": "add", "inputs": ["b2", "r3"]},
                           cv("c5", "conv", "m4", 2, wseed=14),
                           bn("b6", "c5")]))
  return [trim(c) for c in out]


# --------------------------------------------------------------------------
# tensors and builders (TF / qkeras imported lazily)


def layer_tensors(p, cin):
  """kernel, bias (None if unused), BN vectors as float32 arrays."""
  cls = p.get("cls") or p["op"].lstrip("f")
  g = p["geom"]
  rs = np.random.RandomState(p["wseed"])
  cout = cout_of(cls, cin, g["out"])
  kernel = (rs.standard_normal((g["kh"], g["kw"], cin, g["out"])) *
            p["kscale"]).astype(F32)
  bias = rs.standard_normal((cout,)).astype(F32) if p["use_bias"] else None
  return kernel, bias


def bn_tensors(p):
  b = p["bn"]
  gamma = np.asarray(b["gamma"], dtype=F32) if p["scale"] else None
  beta = np.asarray(b["beta"], dtype=F32) if p["center"] else None
  return (gamma, beta, np.asarray(b["mean"], dtype=F32),
          np.asarray(b["var"], dtype=F32))


def input_tensor(case):
  if case["kind"] == "layer":
    g = case["geom"]
    rs = np.random.RandomState(case["wseed"] + 7919)
    return (rs.standard_normal((g["n"], g["h"], g["w"], g["cin"])) *
            case["xscale"]).astype(F32)
  h, w, c = case["input"]
  rs = np.random.RandomState(case["xseed"])
  return (rs.standard_normal((case["n"], h, w, c)) *
          case["xscale"]).astype(F32)


def make_folded_layer(p, name=None):
  """Constructs (does not build) the folded layer described by p."""
  from qkeras import QConv2DBatchnorm, QDepthwiseConv2DBatchnorm  # pylint: disable=g-import-not-at-top
  cls = p.get("cls") or p["op"].lstrip("f")
  g = p["geom"]
  kw = dict(kernel_size=(g["kh"], g["kw"]), strides=(g["sh"], g["sw"]),
            padding=g["pad"], dilation_rate=(g["dh"], g["dw"]),
            use_bias=p["use_bias"], center=p["center"], scale=p["scale"],
            epsilon=p["eps"], ema_freeze_delay=p.get("efd"),
            folding_mode=p["mode"], bias_quantizer=p["bq"],
            activation=p.get("act"))
  if name:
    kw["name"] = name
  if cls == "conv":
    return QConv2DBatchnorm(filters=g["out"], kernel_quantizer=p["kq"], **kw)
  return QDepthwiseConv2DBatchnorm(depth_multiplier=g["out"],
                                   depthwise_quantizer=p["kq"], **kw)


def set_folded_weights(layer, cls, kernel, bias, gamma, beta, mean, var):
  """Assigns by attribute (independent of get_weights() order)."""
  (layer.kernel if cls == "conv" else layer.depthwise_kernel).assign(kernel)
  if bias is not None:
    layer.bias.assign(bias)
  bn = layer.batchnorm
  if gamma is not None:
    bn.gamma.assign(gamma)
  if beta is not None:
    bn.beta.assign(beta)
  bn.moving_mean.assign(mean)
  bn.moving_variance.assign(var)


def node_shapes(case):
  """name -> (h,w,c) for every tensor of a model case."""
  shp = {"in": tuple(case["input"])}
  for nd in case["nodes"]:
    s0 = shp[nd["inputs"][0]]
    op = nd["op"]
    if op in ("conv", "dw", "fconv", "fdw"):
      shp[nd["name"]] = _conv_shape(s0, op.lstrip("f"), nd["geom"])
    elif op == "concat":
      shp[nd["name"]] = (s0[0], s0[1],
                         sum(shp[i][2] for i in nd["inputs"]))
    else:
      shp[nd["name"]] = s0
  return shp


def build_model(case, override=None):
  """Keras functional model of a model case; weights set explicitly.

  override: name -> ("skip",) to drop a node (its output aliases its input)
            or ("conv_weights", kernel, bias) to build a stock conv with
            use_bias=True and these weights (reference models).
  """
  import tensorflow as tf  # pylint: disable=g-import-not-at-top
  L = tf.keras.layers
  override = override or {}
  shp = node_shapes(case)
  inp = L.Input(tuple(case["input"]), name="in")
  t = {"in": inp}
  todo = []
  for nd in case["nodes"]:
    name, op = nd["name"], nd["op"]
    src = [t[i] for i in nd["inputs"]]
    ov = override.get(name)
    if ov is not None and ov[0] == "skip":
      t[name] = src[0]
      continue
    cin = shp[nd["inputs"][0]][2]
    if op in ("conv", "dw"):
      g = nd["geom"]
      kw = dict(kernel_size=(g["kh"], g["kw"]), strides=(g["sh"], g["sw"]),
                padding=g["pad"], dilation_rate=(g["dh"], g["dw"]), name=name)
      if ov is not None:
        kernel, bias = ov[1], ov[2]
      else:
        kernel, bias = layer_tensors(nd, cin)
      kw["use_bias"] = bias is not None
      if op == "conv":
        lyr = L.Conv2D(g["out"], **kw)
      else:
        lyr = L.DepthwiseConv2D(depth_multiplier=g["out"], **kw)
      t[name] = lyr(src[0])
      if nd.get("trainable") is False:
        lyr.trainable = False
      todo.append((lyr, [kernel] + ([bias] if bias is not None else [])))
    elif op == "bn":
      lyr = L.BatchNormalization(center=nd["center"], scale=nd["scale"],
                                 epsilon=nd["eps"], name=name)
      t[name] = lyr(src[0])
      if nd.get("trainable") is False:
        lyr.trainable = False
      gamma, beta, mean, var = bn_tensors(nd)
      todo.append((lyr, [v for v in (gamma, beta) if v is not None] +
                   [mean, var]))
    elif op in ("fconv", "fdw"):
      lyr = make_folded_layer(nd, name=name)
      t[name] = lyr(src[0])
      todo.append((lyr, nd, cin))
    elif op == "relu":
      t[name] = L.Activation("relu", name=name)(src[0])
    elif op == "add":
      t[name] = L.Add(name=name)(src)
    elif op == "concat":
      t[name] = L.Concatenate(name=name)(src)
    else:
      raise ValueError("unknown op %r" % op)
  model = tf.keras.Model(inp, [t[o] for o in case["outputs"]])
  for item in todo:
    if len(item) == 2:
      item[0].set_weights(item[1])
    else:
      lyr, nd, cin = item
      kernel, bias = layer_tensors(nd, cin)
      gamma, beta, mean, var = bn_tensors(nd)
      set_folded_weights(lyr, nd["op"].lstrip("f"), kernel, bias, gamma, beta,
                         mean, var)
  return model


def consumers(case):
  cons = {}
  for nd in case["nodes"]:
    for i in nd["inputs"]:
      cons.setdefault(i, []).append(nd["name"])
  for o in case["outputs"]:
    cons.setdefault(o, []).append("<out>")
  return cons


def expected_folds(case):
  """Documented rule: a Conv2D / DepthwiseConv2D whose single consumer is a
  BatchNormalization is folded.  Returns {conv name: bn name} in node order."""
  cons = consumers(case)
  byname = {nd["name"]: nd for nd in case["nodes"]}
  out = {}
  for nd in case["nodes"]:
    if nd["op"] in ("conv", "dw"):
      cs = cons.get(nd["name"], [])
      if len(cs) == 1 and cs[0] in byname and byname[cs[0]]["op"] == "bn":
        out[nd["name"]] = cs[0]
  return out


def quantizer_config(case, folds):
  """quantizer_config dictionary for model_quantize and, per conv/dw node,
  what the documented lookup rules make of it:
     plan[name] = (folded?, kq, bq, folding_mode) or None (left untouched).
  styles:  class    - keys QConv2DBatchnorm / QDepthwiseConv2DBatchnorm
           fallback - keys QConv2D / QDepthwiseConv2D only (documented back-up
                      for folded layers; plain convs get quantized as well)
           name     - one entry per foldable layer name
           partial  - as class, but the depthwise (or, without depthwise
                      layers, the conv) folded class has no entry at all
  """
  q = case["q"]
  style = q["style"]
  qc = {}
  kkey = {"conv": "kernel_quantizer", "dw": "depthwise_quantizer"}
  fcls = {"conv": "QConv2DBatchnorm", "dw": "QDepthwiseConv2DBatchnorm"}
  pcls = {"conv": "QConv2D", "dw": "QDepthwiseConv2D"}
  convs = [nd for nd in case["nodes"] if nd["op"] in ("conv", "dw")]
  plan = {}

  def entry(c, with_mode):
    e = {kkey[c]: q["kq"][c], "bias_quantizer": q["bq"][c]}
    if with_mode and q["mode"][c]:
      e["folding_mode"] = q["mode"][c]
    return e

  missing = None
  if style == "partial":
    kinds = sorted(set(nd["op"] for nd in convs if nd["name"] in folds))
    missing = kinds[-1] if kinds else None
  for c in ("conv", "dw"):
    if style in ("class", "partial"):
      if c != missing:
        qc[fcls[c]] = entry(c, True)
    elif style == "fallback":
      qc[pcls[c]] = entry(c, False)
      if q["mode"][c]:
        qc[fcls[c]] = {"folding_mode": q["mode"][c]}
  for nd in convs:
    c, name = nd["op"], nd["name"]
    folded = name in folds
    mode = q["mode"][c] or "ema_stats_folding"
    if style == "name":
      if folded:
        qc[name] = entry(c, True)
        plan[name] = (True, q["kq"][c], q["bq"][c], mode)
      else:
        plan[name] = None
    elif style in ("class", "partial"):
      if folded and c != missing:
        plan[name] = (True, q["kq"][c], q["bq"][c], mode)
      elif folded:
        plan[name] = "unquantized_fold"
      else:
        plan[name] = None
    else:
      if folded:
        plan[name] = (True, q["kq"][c], q["bq"][c], mode)
      else:
        plan[name] = (False, q["kq"][c],
                      q["bq"][c] if nd["use_bias"] else None, None)
  return qc, plan
