"""C08 generators and references: configurations of the three quantizer families
that have a stochastic mode, the "clipped input" reference of each (re-derived
from the docstrings, float64 on float32 inputs) and Hypothesis strategies.

Families
  fixed  quantized_bits / quantized_linear / quantized_relu / quantized_tanh /
         quantized_sigmoid with use_stochastic_rounding (config format and
         format model are those of vf.gen.fixed)
  po2    quantized_po2 / quantized_relu_po2 with use_stochastic_rounding
  sign   binary(use_stochastic_rounding), ternary('auto*', use_stochastic_
         rounding), stochastic_binary, stochastic_ternary

A config is {"cls", "kw", "sigmoid"}; the stochastic flag is NOT part of kw, it
is added by build(cfg, sr=True|False) so the round-to-nearest twin is the same
description.
"""
import math

import numpy as np

from vf.gen import fixed as G

F32 = np.float32

# Generated magnitudes are exactly 0, a deliberate denormal probe, or >= MIN_MAG:
# then a non-zero difference between a code and its input is never a float32
# subnormal (which the TF CPU kernels flush to zero inside x + (xq - x)).
MIN_MAG = 1e-30
SNAP = 1e-20        # what the tensor strategies actually snap to 0 (so that an
                    # element 2^-8 below the channel maximum is still >= MIN_MAG)


def snap0(v, bound=SNAP):
  v = float(F32(v))
  return 0.0 if abs(v) < bound else v

# two-sided 7-sigma level of a normal: 2*(1-Phi(7)) = 2.56e-12
LEVEL = 2.56e-12
LOGL = math.log(2.0 / LEVEL)


def bern_tol(var, n, width):
  """Bernstein bound: for n iid draws with |X-mu| <= width and Var <= var,
  P(|mean-mu| > t) <= LEVEL for t = this value.  For large n*var it equals
  sqrt(2*LOGL) = 7.4 standard errors; it stays sound for tiny variances where
  the normal approximation is not (Poisson-like tails)."""
  a = width * LOGL / (3.0 * n)
  return a + np.sqrt(a * a + 2.0 * np.asarray(var, dtype=np.float64) * LOGL / n)


# ---------------------------------------------------------------------------
# fixed family


def fixed_cfgs(tier):
  """(training+inference configs, inference-only configs, n excluded)."""
  train, infer_only, excluded = [], [], 0
  for cfg in G.lattice(tier):
    kw = cfg["kw"]
    if cfg["cls"] == "quantized_relu":
      sl = kw.get("negative_slope", 0.0)
      if sl and sl * 2 ** (kw["bits"] - 1) < 1:
        excluded += 1          # C01-KF2 region: saturation code is fractional
        continue
      if kw.get("use_sigmoid"):
        infer_only.append(cfg)  # no grid surrogate: only the inference clause
        continue
    train.append(cfg)
  return train, infer_only, excluded


def fixed_variant(cfg):
  kw, c = cfg["kw"], cfg["cls"]
  if c in ("quantized_bits", "quantized_linear"):
    v = "alpha" if kw.get("alpha") is not None else "plain"
    if kw["bits"] - (1 if kw.get("keep_negative", True) else 0) == 0:
      v += "+sign"
    return v
  if c == "quantized_relu":
    v = "sigmoid" if kw.get("use_sigmoid") else "plain"
    if kw.get("negative_slope"):
      v += "+leaky"
    if not kw.get("is_quantized_clip", True):
      v += "+upper" if kw.get("relu_upper_bound") is not None else "+unclipped"
    return v
  if kw.get("use_real_tanh") or kw.get("use_real_sigmoid"):
    return "own_real"
  return cfg.get("sigmoid", "hard")


def fixed_ref(cfg, xs):
  """Reference position of the clipped input in code units.

  Returns dict of float64 arrays: c (clipped position), lo/hi (the two adjacent
  codes; lo == hi for an input that is a code), eps (uncertainty of c in code
  units caused by the float32 evaluation of a transcendental / affine
  surrogate; 0 where the position is exact), plus the format model."""
  m = G.model(cfg)
  x = np.asarray(xs, dtype=F32).astype(np.float64)
  u = m["u"]
  if m["surr"] == "id":
    pos = x / m["u_in"]
    eps = np.zeros_like(pos)
  elif m["surr"] == "relu":
    pos = np.where(x >= 0, x, m["slope"] * x) / u
    eps = np.zeros_like(pos)
  elif m["surr"] in ("tanh", "sigmoid"):
    pos = G.surrogate64(m, x) / u
    # float32 evaluation of the surrogate: affine (hard/smooth) 2 roundings of
    # values <= 1, transcendental a few ulp; tanh = 2*sigmoid-1 doubles it.
    rel = 2.0 ** -19 if (m.get("real") or m["sigmoid"] == "real") else 2.0 ** -21
    if m["surr"] == "tanh":
      rel *= 2
    eps = np.full_like(pos, rel / u)
    if m["sigmoid"] == "hard" and not m.get("real"):
      # exact when the float32 evaluation of 0.5*x+0.5 is exact
      h32 = (F32(0.5) * x.astype(F32) + F32(0.5)).astype(np.float64)
      eps = np.where(h32 == 0.5 * x + 0.5, 0.0, eps)
  else:
    raise ValueError(m["surr"])
  if m["sign"]:
    klo, khi, step = -1.0, 1.0, 2.0
  else:
    klo = float(m["kmin"]) if m["neg_sat"] is None else float(m["neg_sat"])
    khi, step = float(m["kmax"]), 1.0
  c = np.clip(pos, klo, khi)
  eps = np.where(np.abs(pos - c) > eps, 0.0, eps)   # saturated by a clear margin
  if m["sign"]:
    lo = np.where(c >= 1.0, 1.0, -1.0)
    hi = np.where(c <= -1.0, -1.0, 1.0)
    lo_e, hi_e = lo, hi
  else:
    lo, hi = np.floor(c), np.ceil(c)
    lo_e = np.maximum(np.floor(c - eps), klo)
    hi_e = np.minimum(np.ceil(c + eps), khi)
  return {"m": m, "u": u, "c": c, "lo": lo, "hi": hi, "lo_e": lo_e,
          "hi_e": hi_e, "eps": eps, "pos": pos, "step": step,
          "klo": klo, "khi": khi}


def fixed_inv(m, t):
  """float32 input whose surrogate sits at code position t (float64 array)."""
  t = np.asarray(t, dtype=np.float64)
  u = m["u"]
  if m["surr"] == "id":
    x = t * m["u_in"]
  elif m["surr"] in ("relu", "relu_sigmoid"):
    x = np.where((t < 0) & (m["slope"] != 0), t * u / (m["slope"] or 1.0), t * u)
  else:
    s = t * u
    sg = m["sigmoid"]
    if m["surr"] == "tanh":
      if m.get("real"):
        x = np.arctanh(np.clip(s, -1 + 1e-9, 1 - 1e-9))
      elif sg == "hard":
        x = s
      elif sg == "smooth":
        x = s / 0.375
      else:
        x = 2 * np.arctanh(np.clip(s, -1 + 1e-9, 1 - 1e-9))
    else:
      if m.get("real") or sg == "real":
        p = np.clip(s, 1e-9, 1 - 1e-9)
        x = np.log(p / (1 - p))
      elif sg == "hard":
        x = (s - 0.5) / 0.5
      else:
        x = (s - 0.5) / 0.1875
  x = np.asarray(x, dtype=np.float64)
  gb = min(m["gen_bound"], 2.0 ** 22 * m["u_in"])
  x = np.clip(x, -gb * 0.99, gb * 0.99)
  x = x.astype(F32)
  return np.where(np.abs(x) < MIN_MAG, F32(0.0), x).astype(F32)


FRACS = [0.0, 0.5, 0.25, 0.75, 0.125, 0.9, 0.03, 0.97, 0.3, 0.6]


def fixed_walk(cfg, n_elems=24):
  """Deterministic element list: codes, interior points at several fractions,
  both saturation sides."""
  m = G.model(cfg)
  if m["sign"]:
    t = np.array([-1.5, -1.0, -0.9, -0.5, -0.25, -0.01, 0.0, 0.01, 0.25, 0.5,
                  0.9, 1.0, 1.5, 3.0])
    return [float(v) for v in fixed_inv(m, t)]
  klo = m["kmin"] if m["neg_sat"] is None else int(m["neg_sat"])
  khi = m["kmax"]
  ks = sorted(set([klo - 2, klo, klo + 1, (klo + khi) // 2, -1, 0, 1, khi - 1,
                   khi, khi + 2]))
  t = []
  for i, k in enumerate(ks):
    t.append(float(k))
    t.append(k + FRACS[1 + (i % (len(FRACS) - 1))])
    t.append(k + FRACS[1 + ((i + 4) % (len(FRACS) - 1))])
  t = np.array(t[:max(n_elems, 8)])
  return [float(v) for v in fixed_inv(m, t)]


def fixed_elems_strategy(cfg, max_elems=24):
  from hypothesis import strategies as st  # pylint: disable=g-import-not-at-top
  m = G.model(cfg)
  if m["sign"]:
    pos = st.one_of(st.sampled_from([-1.0, 1.0, 0.0, -0.5, 0.5, 2.0, -2.0]),
                    st.floats(-1.5, 1.5, allow_nan=False))
  else:
    klo = m["kmin"] if m["neg_sat"] is None else int(m["neg_sat"])
    khi = m["kmax"]
    k = st.one_of(st.integers(klo - 3, khi + 3),
                  st.sampled_from([klo - 1, klo, khi - 1, khi, 0, -1]))
    f = st.one_of(st.sampled_from(FRACS), st.floats(0.001, 0.999))
    pos = st.builds(lambda a, b: a + b, k, f)

  @st.composite
  def elems(draw):
    ts = draw(st.lists(pos, min_size=2, max_size=max_elems))
    return [float(v) for v in fixed_inv(m, np.array(ts))]
  return elems()


def build_fixed(cfg, sr):
  kw = dict(cfg["kw"], use_stochastic_rounding=bool(sr))
  return G.build({"cls": cfg["cls"], "kw": kw,
                  "sigmoid": cfg.get("sigmoid", "hard")})


# ---------------------------------------------------------------------------
# power-of-two family

PO2_LOWEST = 2.0 ** -20   # generated magnitudes are 0 or >= this (see ASSUMPTIONS)


def po2_cfgs(tier):
  cfgs = []
  bits = [2, 3, 4, 5, 6] if tier == "quick" else [2, 3, 4, 5, 6, 7, 8]
  for b in bits:
    for mv in [None, 1.0, 0.5, 2.0, 4.0, 16.0]:
      if b > 6 and mv is not None and mv <= 1:
        continue               # min_exp <= -64: 2^min_exp leaves float32 comfort
      cfgs.append({"cls": "quantized_po2", "kw": {"bits": b, "max_value": mv}})
  for b in ([1, 2, 3, 4, 5] if tier == "quick" else [1, 2, 3, 4, 5, 6, 7]):
    for mv in [None, 1.0, 0.5, 2.0, 4.0]:
      if b > 5 and mv is not None and mv <= 1:
        continue
      for sl in [0.0, 0.5, 0.125]:
        if b == 1 and mv is None:
          continue
        cfgs.append({"cls": "quantized_relu_po2",
                     "kw": {"bits": b, "max_value": mv, "negative_slope": sl}})
  # quadratic approximation: codes are the even powers of two of the range
  quad = []
  for b in ([3, 4, 5, 6] if tier == "quick" else [3, 4, 5, 6, 7]):
    for mv in [None, 1.0, 4.0, 0.25, 16.0]:
      quad.append({"cls": "quantized_po2",
                   "kw": {"bits": b, "max_value": mv, "quadratic_approximation": True}})
  for b in ([2, 3, 4, 5] if tier == "quick" else [2, 3, 4, 5, 6]):
    for mv in [None, 1.0, 4.0]:
      for sl in [0.0, 0.5]:
        quad.append({"cls": "quantized_relu_po2",
                     "kw": {"bits": b, "max_value": mv, "negative_slope": sl,
                            "quadratic_approximation": True}})
  for c in quad:
    try:
      po2_model(c)
    except ValueError:
      continue
    cfgs.append(c)
  return cfgs


def po2_model(cfg):
  """Exponent range re-derived from the docstrings: the exponent takes the bits
  that are not the sign of x; it needs its own sign bit unless max_value <= 1."""
  kw = cfg["kw"]
  b, mv = kw["bits"], kw.get("max_value")
  need = 0 if (mv is not None and mv <= 1) else 1
  eb = (b - 1 if cfg["cls"] == "quantized_po2" else b) - need
  if eb < 0:
    raise ValueError("no exponent bits")
  emin, emax = -2 ** eb, 2 ** eb - 1
  quad = bool(kw.get("quadratic_approximation"))
  if quad:
    # docstring: "forces the exponent to be an even number"; the largest
    # exponent is rounded down to even.  Lattice = {2^e : e even, emin<=e<=emax}.
    if eb < 1:
      raise ValueError("quadratic mode needs an even lowest exponent")
    emax = 2 * (emax // 2)
    if mv is not None:
      e_mv = math.log2(float(mv))
      if e_mv != int(e_mv) or int(e_mv) % 2 or float(mv) > 2.0 ** emax or float(mv) < 2.0 ** emin:
        raise ValueError("max_value must be an even power of two inside the range")
  top = 2.0 ** emax if mv is None else min(2.0 ** emax, float(mv))
  return {"emin": emin, "emax": emax, "bot": 2.0 ** emin, "top": top,
          "slope": float(kw.get("negative_slope", 0.0)),
          "relu": cfg["cls"] == "quantized_relu_po2", "quad": quad,
          "mv_is_top": mv is not None and float(mv) == top}


def po2_variant(cfg):
  kw = cfg["kw"]
  v = "maxv" if kw.get("max_value") is not None else "plain"
  if kw.get("negative_slope"):
    v += "+leaky"
  if kw.get("quadratic_approximation"):
    v += "+quad"
  return v


def po2_ref(cfg, xs):
  """Signed clipped input c and its two neighbouring powers of two."""
  m = po2_model(cfg)
  x = np.asarray(xs, dtype=F32).astype(np.float64)
  if m["relu"]:
    mag = np.where(x >= 0, x, -x * m["slope"])
    sgn = np.where((x >= 0) | (m["slope"] == 0.0), 1.0, -1.0)
  else:
    mag = np.abs(x)
    sgn = np.where(x < 0, -1.0, 1.0)
  a = np.clip(mag, m["bot"], m["top"])
  mant, ex = np.frexp(a)            # a = mant*2^ex, mant in [0.5,1)
  lo = np.ldexp(0.5, ex)            # 2^(ex-1) <= a
  hi = np.where(mant == 0.5, lo, 2.0 * lo)
  if m["quad"]:
    f = ex - 1                       # floor(log2 a)
    lo = np.ldexp(1.0, f - (f % 2))  # largest even power of two <= a
    hi = np.where(a == lo, lo, 4.0 * lo)
  hi = np.minimum(hi, 2.0 ** m["emax"])
  return {"m": m, "c": sgn * a, "a": a, "lo": lo, "hi": hi, "sgn": sgn,
          "mag": mag}


def po2_inv(cfg, t):
  """float32 inputs from positions t = signed (exponent + fraction of the gap in
  value space): value = sign * 2^floor(e) * (1 + frac)."""
  m = po2_model(cfg)
  out = []
  for sgn, e, fr in t:
    v = 2.0 ** e * (1.0 + fr)
    if m["quad"]:
      # quadratic mode: magnitudes stay inside [lowest code, top] (beyond them the
      # library clips the HALF exponent to [min_exp, max_exp] before doubling it,
      # i.e. to a range the docstring does not describe - C03's subject); above
      # top only where max_value does the clipping
      v = min(max(v, m["bot"], PO2_LOWEST), m["top"] * 256.0 if m["mv_is_top"] else m["top"])
      if sgn < 0 and m["relu"] and m["slope"]:
        v = v / m["slope"]
      out.append(float(F32(sgn * v)))
      continue
    if sgn < 0 and m["relu"] and m["slope"]:
      v = v / m["slope"]
    v = max(min(v, m["top"] * 256.0 / (m["slope"] or 1.0)), PO2_LOWEST)
    out.append(float(F32(sgn * v)))
  return out


def po2_walk(cfg):
  m = po2_model(cfg)
  es = sorted(set([m["emin"] - 2, m["emin"], m["emin"] + 1, -1, 0,
                   int(math.floor(math.log2(m["top"]))) - 1,
                   int(math.floor(math.log2(m["top"]))),
                   int(math.floor(math.log2(m["top"]))) + 2]))
  es = [e for e in es if 2.0 ** e >= PO2_LOWEST]
  t = []
  for i, e in enumerate(es):
    for sgn in (1, -1):
      t.append((sgn, e, 0.0))
      t.append((sgn, e, FRACS[1 + (i % 9)]))
  return po2_inv(cfg, t) + [0.0]


def po2_elems_strategy(cfg, max_elems=24):
  from hypothesis import strategies as st  # pylint: disable=g-import-not-at-top
  m = po2_model(cfg)
  etop = int(math.floor(math.log2(m["top"])))
  elo = max(m["emin"] - 3, int(math.log2(PO2_LOWEST)))
  e = st.integers(elo, etop + 3)
  f = st.one_of(st.sampled_from(FRACS), st.floats(0.001, 0.999))
  one = st.tuples(st.sampled_from([1, -1]), e, f)

  @st.composite
  def elems(draw):
    ts = draw(st.lists(one, min_size=2, max_size=max_elems))
    xs = po2_inv(cfg, ts)
    if draw(st.booleans()):
      xs.append(0.0)
    return xs
  return elems()


def build_po2(cfg, sr):
  from qkeras import quantizers as Q  # pylint: disable=g-import-not-at-top
  return getattr(Q, cfg["cls"])(use_stochastic_rounding=bool(sr), **cfg["kw"])


# ---------------------------------------------------------------------------
# sign family


def sign_cfgs(tier):
  cfgs = []
  for a in [None, 1.0, 0.5, "auto", "auto_po2"]:
    cfgs.append({"cls": "binary", "kw": {"alpha": a}})
    if not isinstance(a, str):
      cfgs.append({"cls": "binary", "kw": {"alpha": a, "use_01": True}})
  for a in ["auto", "auto_po2"]:
    cfgs.append({"cls": "ternary", "kw": {"alpha": a}})
    cfgs.append({"cls": "ternary", "kw": {"alpha": a, "number_of_unrolls": 2}})
  for a in [None, 1.0, 0.5, "auto", "auto_po2"]:
    for t, rs in [(6.0, True), (1.0, True), (20.0, False), (2.0, False)]:
      cfgs.append({"cls": "stochastic_binary",
                   "kw": {"alpha": a, "temperature": t, "use_real_sigmoid": rs}})
  for a in ["auto", "auto_po2", None, 2.0]:
    for t, rs in [(8.0, True), (1.0, True), (2.0, False)]:
      for th in ([None] if isinstance(a, str) else [None, 0.5, 0.33, 0.25]):
        cfgs.append({"cls": "stochastic_ternary",
                     "kw": {"alpha": a, "temperature": t, "threshold": th,
                            "use_real_sigmoid": rs}})
  return cfgs


def sign_trainable(cfg):
  """stochastic_ternary asserts a string alpha in its training branch."""
  if cfg["cls"] == "stochastic_ternary":
    return isinstance(cfg["kw"].get("alpha"), str)
  return True


def codes_depend_on_draw(cfg):
  """binary / ternary with alpha='auto*' fit their scale by least squares to the
  codes they have just drawn: the code set is a function of the execution, so
  draws of different executions do not share one code set."""
  return cfg["cls"] in ("binary", "ternary") and isinstance(cfg["kw"].get("alpha"), str)


def sign_variant(cfg):
  a = cfg["kw"].get("alpha")
  v = a if isinstance(a, str) else ("none" if a is None else "const")
  if cfg["kw"].get("use_01"):
    v += "+01"
  return v


def build_sign(cfg, sr):
  """sr=True: the stochastic quantizer; sr=False: its deterministic twin
  (same class without the flag, or binary/ternary for the stochastic_* classes)."""
  from qkeras import quantizers as Q  # pylint: disable=g-import-not-at-top
  c, kw = cfg["cls"], cfg["kw"]
  if c in ("binary", "ternary"):
    return getattr(Q, c)(use_stochastic_rounding=bool(sr), **kw)
  if sr:
    return getattr(Q, c)(**kw)
  if c == "stochastic_binary":
    return Q.binary(alpha=kw.get("alpha"))
  return Q.ternary(alpha=kw.get("alpha"), threshold=kw.get("threshold"),
                   number_of_unrolls=kw.get("number_of_unrolls", 5))


def sign_tensor_strategy(cfg):
  """Base tensor of shape [..., C], rank 2..4, at least 3 rows per channel so
  that per-channel statistics (max, std, least-squares scale) are not
  degenerate; elements are spread around the channel magnitude 2^k."""
  from hypothesis import strategies as st  # pylint: disable=g-import-not-at-top
  a = cfg["kw"].get("alpha")
  const = None if (a is None or isinstance(a, str)) else float(a)

  @st.composite
  def t(draw):
    shape = draw(st.sampled_from([[3, 1], [4, 2], [6, 2], [4, 3], [3, 4], [8, 1],
                                  [2, 2, 2], [2, 3, 2], [3, 1, 3], [2, 2, 1, 2],
                                  [1, 2, 2, 3], [5, 5], [2, 3, 1], [2, 5], [7, 1],
                                  [2, 1, 4], [2, 2, 1, 1], [1, 3, 1, 4]]))
    C = shape[-1]
    R = int(np.prod(shape[:-1]))
    cols = []
    zero_ch = False
    for ch in range(C):
      kind = draw(st.sampled_from(["spread", "spread", "spread", "small", "codes",
                                   "zero"]))
      mag = 2.0 ** draw(st.integers(-5, 2))
      if kind == "zero" and cfg["cls"] == "binary" and not zero_ch:
        # all-zero channel, or one whose largest magnitude is a float32 denormal
        # (flushed to zero by the TF CPU kernels): region of the repaired
        # C08-KF3/KF3b, now a normal part of the domain
        zero_ch = True
        if draw(st.booleans()):
          cols.append([0.0] * R)
        else:
          cols.append([float(F32(v)) for v in draw(st.lists(
              st.sampled_from([0.0, -0.0, 1e-40, -1e-42, 1.401298464324817e-45,
                               -1.401298464324817e-45, 1.0e-38]),
              min_size=R, max_size=R))])
        continue
      if kind == "small":
        vals = draw(st.lists(st.floats(-0.25, 0.25, width=32), min_size=R, max_size=R))
      elif kind == "codes" and const is not None:
        vals = draw(st.lists(st.sampled_from([const, -const, 0.0, const / 2, -const / 4,
                                              2 * const]), min_size=R, max_size=R))
      elif kind == "codes" and a is None:
        vals = draw(st.lists(st.sampled_from([1.0, -1.0, 0.0, 0.5, -0.25, 2.0]),
                             min_size=R, max_size=R))
      else:
        vals = draw(st.lists(st.floats(-1.5, 1.5, width=32), min_size=R, max_size=R))
      col = [snap0(v * (mag if kind != "codes" else 1.0)) for v in vals]
      if all(v == 0.0 for v in col):
        col[0] = float(F32(mag))
      if kind != "codes" and draw(st.booleans()):
        # an element within 2^-8 of the channel maximum from 0
        big = int(np.argmax(np.abs(col)))
        i = (big + 1 + draw(st.integers(0, R - 2))) % R
        col[i] = float(F32(draw(st.sampled_from([1.0, -1.0])) * abs(col[big]) * 2.0 ** -8))
      cols.append(col)
    xs = [cols[ch][r] for r in range(R) for ch in range(C)]
    return {"shape": shape, "xs": xs, "zero_channel": zero_ch}
  return t()


def sign_walk(cfg):
  a = cfg["kw"].get("alpha")
  s = 1.0 if (a is None or isinstance(a, str)) else float(a)
  col0 = [-1.5 * s, -s, -0.4 * s, -0.05 * s, 0.0, 0.004 * s, 0.02 * s, 0.1 * s, 0.3 * s, s, 2 * s]
  col1 = [0.25 * v + 0.01 for v in col0]
  xs = []
  for r in range(len(col0)):
    xs += [float(F32(col0[r])), float(F32(col1[r]))]
  return {"shape": [len(col0), 2], "xs": xs, "zero_channel": False}


# ---------------------------------------------------------------------------
# fixed point with a data-dependent scale (alpha = 'auto' / 'auto_po2')


def auto_cfgs(tier):
  cfgs = []
  for cls in ("quantized_bits", "quantized_linear"):
    for b in ([2, 3, 4, 6, 8] if tier == "quick" else [2, 3, 4, 5, 6, 8]):
      for i in (0, 1):
        for a in ("auto", "auto_po2"):
          cfgs.append({"cls": cls, "kw": {"bits": b, "integer": i, "alpha": a}})
  return cfgs


def build_auto(cfg, sr):
  from qkeras import quantizers as Q  # pylint: disable=g-import-not-at-top
  return getattr(Q, cfg["cls"])(use_stochastic_rounding=bool(sr), **cfg["kw"])


def auto_tensor_strategy(cfg):
  """[R, C] (or [R1, R2, C]) tensors, >= 4 rows per channel, values spread over
  the channel magnitude so that most elements sit strictly between two codes."""
  from hypothesis import strategies as st  # pylint: disable=g-import-not-at-top

  @st.composite
  def t(draw):
    shape = draw(st.sampled_from([[4, 1], [6, 2], [5, 3], [8, 2], [2, 3, 2], [2, 2, 2, 2]]))
    C = shape[-1]
    R = int(np.prod(shape[:-1]))
    cols = []
    for _ in range(C):
      mag = 2.0 ** draw(st.integers(-4, 3))
      vals = draw(st.lists(st.one_of(st.floats(-1.0, 1.0, width=32),
                                     st.sampled_from([0.0, 1.0, -1.0, 0.5, 0.3, -0.7])),
                           min_size=R, max_size=R))
      col = [snap0(v * mag) for v in vals]
      if max(abs(v) for v in col) < mag / 8:
        col[0] = float(F32(mag))
      cols.append(col)
    xs = [cols[ch][r] for r in range(R) for ch in range(C)]
    return {"shape": shape, "xs": xs}
  return t()


def auto_walk(cfg):
  col0 = [-1.0, -0.83, -0.5, -0.31, -0.07, 0.0, 0.04, 0.21, 0.47, 0.66, 0.9, 1.0]
  col1 = [0.37 * v + 0.011 for v in col0]
  xs = []
  for r in range(len(col0)):
    xs += [float(F32(col0[r])), float(F32(col1[r]))]
  return {"shape": [len(col0), 2], "xs": xs}


# ---------------------------------------------------------------------------
# deterministic probes


def f32_nbrs(v, k=2):
  """float32(v) with its +-1..k ulp neighbours, both signs."""
  c = F32(v)
  out = [c]
  up = dn = c
  for _ in range(k):
    up = np.nextafter(up, F32(np.inf))
    dn = np.nextafter(dn, F32(-np.inf))
    out += [up, dn]
  return [float(x) for x in out] + [-float(x) for x in out]


def threshold_probes(cfg):
  """Inference-time inputs at and around every documented decision threshold of
  the sign-type quantizers: ternary default 0.33 (and the tempting 1/3), the
  explicit threshold, 0 for the sign decision; the same values scaled by a
  constant alpha and, for data-dependent thresholds, by the channel maximum."""
  kw = cfg["kw"]
  vals = []
  for t in (0.0, 1.1754944e-38, 1e-30, 1e-7):
    vals += f32_nbrs(t, 1)
  vals += [1e-40, -1e-40, 1.401298464324817e-45, -1.401298464324817e-45]
  if "ternary" in cfg["cls"]:
    ths = [0.33, 1.0 / 3.0, 0.3333, 0.332, 0.5, 0.25, 2.0 / 3.0]
    if kw.get("threshold") is not None:
      ths.append(float(kw["threshold"]))
    a = kw.get("alpha")
    for t in ths:
      vals += f32_nbrs(t, 2)
      vals += [float(np.float64(t)), -float(np.float64(t))]   # rounded to f32 by the caller
      if a is not None and not isinstance(a, str):
        vals += f32_nbrs(t * float(a), 1)
  else:
    a = kw.get("alpha")
    s_ = 1.0 if (a is None or isinstance(a, str)) else float(a)
    vals += f32_nbrs(s_, 1) + f32_nbrs(0.5 * s_, 1)
  vals += [1.5, -1.5, 3.0, -3.0]
  vals = [float(F32(v)) for v in vals]
  seen, out = set(), []
  for v in vals:
    key = (v, np.signbit(v))
    if key not in seen:
      seen.add(key)
      out.append(v)
  return out


def wide_cfgs():
  """Wide fixed-point formats (16-24 bits): large exact code indices, where a
  float32 'v + u' style rounding loses the code (seeded change C08-s4)."""
  cfgs = []
  for cls in ("quantized_bits", "quantized_linear"):
    for b, i in ((16, 0), (16, 3), (20, 0), (20, 3), (24, 0), (24, 23)):
      cfgs.append({"cls": cls, "sigmoid": "hard",
                   "kw": {"bits": b, "integer": i, "symmetric": 0 if i != 3 else 1,
                          "keep_negative": True, "alpha": None}})
  for b, i in ((16, 0), (20, 2)):
    cfgs.append({"cls": "quantized_relu", "sigmoid": "hard",
                 "kw": {"bits": b, "integer": i, "negative_slope": 0.0}})
  cfgs.append({"cls": "quantized_tanh", "sigmoid": "hard", "kw": {"bits": 16, "symmetric": 0}})
  cfgs.append({"cls": "quantized_sigmoid", "sigmoid": "hard", "kw": {"bits": 16, "symmetric": 0}})
  return cfgs


def wide_walk(cfg):
  """Exact codes of large index (up to the 2^22-step domain bound) and a few
  interior points next to them."""
  m = G.model(cfg)
  top = min(m["kmax"], 2 ** 22 - 8)
  bot = max(m["kmin"], -(2 ** 22 - 8))
  ks = [top, top - 1, top - 2, (top * 3) // 4 + 1, top // 2 + 1, top // 4 + 3,
        top // 16 + 1, 2 ** 14 + 1, 2 ** 12 - 1, 1, 0]
  if bot < 0:
    ks += [bot, bot + 1, bot // 2 - 1, -(2 ** 14) - 1, -1]
  t = [float(k) for k in ks if bot <= k <= top]
  t += [top // 2 + 0.5, top // 16 + 0.25, 2.0 ** 12 + 0.75, 0.5]
  return [float(v) for v in fixed_inv(m, np.array(t))]
