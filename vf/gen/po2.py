"""Power-of-two quantizer family (C03): option lattice, breakpoint walks,
Hypothesis strategies.  A config is {"cls": name, "kw": {...}}.

The float32 cancellation regime of the straight-through expression
(|s| >= 2^24*|xq|, known finding C03-KF1) is excluded *by construction*: with
use_ste=True magnitudes are generated below 2^23 * 2^top (top = largest
admissible exponent); walk points beyond that bound are dropped and counted.
"""
import itertools
import math

import numpy as np

from vf.ref import po2 as R

F32 = np.float32
FMAX_EXP = 127

MAX_VALUES_QUICK = [None, 0.25, 1.0, 2.0, 16.0]
MAX_VALUES_FULL = [None, 0.25, 0.5, 1.0, 2.0, 4.0, 8.0, 16.0]
SLOPES = [0.0, 0.5, 0.25, 0.125]


def lattice(tier):
  cfgs = []
  bits_list = [2, 3, 4, 5, 6, 7, 8]
  mvs = MAX_VALUES_QUICK if tier == "quick" else MAX_VALUES_FULL
  for b, mv, mode, ste in itertools.product(bits_list, mvs, ["rnd", "floor"],
                                            [True, False]):
    cfgs.append({"cls": "quantized_po2",
                 "kw": {"bits": b, "max_value": mv, "log2_rounding": mode,
                        "use_ste": ste}})
  slopes = SLOPES if tier != "quick" else [0.0, 0.5, 0.125]
  for b, mv, sl, mode, ste in itertools.product(bits_list, mvs, slopes,
                                                ["rnd", "floor"],
                                                [True, False]):
    if tier == "quick" and not ste and sl == 0.5:
      continue
    cfgs.append({"cls": "quantized_relu_po2",
                 "kw": {"bits": b, "max_value": mv, "negative_slope": sl,
                        "log2_rounding": mode, "use_ste": ste}})
  return cfgs


def smoke_lattice():
  """quadratic_approximation=True: only smoke-tested (finite power-of-two
  outputs); use_ste=False so the quantized value is returned as is."""
  cfgs = []
  for cls, b, mv, mode in itertools.product(
      ["quantized_po2", "quantized_relu_po2"], [2, 3, 4, 5, 6],
      [None, 1.0, 4.0], ["rnd", "floor"]):
    cfgs.append({"cls": cls, "kw": {"bits": b, "max_value": mv,
                                    "log2_rounding": mode,
                                    "quadratic_approximation": True,
                                    "use_ste": False}})
  return cfgs


def build(cfg):
  from qkeras import quantizers as Q  # pylint: disable=g-import-not-at-top
  return getattr(Q, cfg["cls"])(**cfg["kw"])


def call(q, xs):
  import tensorflow as tf  # pylint: disable=g-import-not-at-top
  x = tf.constant(np.asarray(xs, dtype=F32))
  return np.asarray(q(x).numpy(), dtype=F32)


def bound_exp(f, negative=False):
  """Exclusive exponent bound: generated |x| < 2^bound_exp(...).  By
  construction inside the exact regime of the straight-through expression."""
  if not f["use_ste"]:
    return FMAX_EXP + 1
  if (f["relu"] and not negative and f["max_value"] is not None
      and f["max_value"] < 2.0 ** (f["top"] + 23)):
    # the surrogate of the ReLU variant above max_value is the constant
    # max_value, not x: exact for every finite positive input
    return FMAX_EXP + 1
  b = f["top"] + 23
  if negative and f["relu"] and f["slope"]:
    b += int(round(-math.log2(f["slope"])))
  return min(b, FMAX_EXP + 1)


def low_band(f, negative=False):
  """Low-side cancellation regime: |x| below epsilon maps to 2^lo, and for
  lo <= -48 the surrogate s (>= 2^(lo+24)) absorbs it.  Returns the excluded
  half-open |x| interval [a, b) or None."""
  if not f["use_ste"] or f["lo"] + 23 >= -24:
    return None
  a, b = 2.0 ** (f["lo"] + 23), R.EPS32
  if negative and f["relu"]:
    if not f["slope"]:
      return None               # surrogate is relu(x) = 0: nothing to cancel
    a, b = a / f["slope"], b / f["slope"]
  return a, b


def _in_band(v, band):
  if band is None:
    return np.zeros(np.shape(v), dtype=bool)
  return (v >= band[0]) & (v < band[1])


ULP_OFFSETS = [0, 1, 2, 3, 8, 64, 1024, 1 << 14, 1 << 18]


def _steps(center, offs):
  """center (float32 array) moved by +-offs ulps through the int32 view."""
  c = np.asarray(center, dtype=F32)
  bits = c.view(np.int32).astype(np.int64)
  out = []
  for o in offs:
    for sgn in ((1, -1) if o else (1,)):
      b = bits + sgn * o
      b = np.clip(b, 0x00800000, 0x7F7FFFFF)   # stay normal, finite, positive
      out.append(b.astype(np.int32).view(F32))
  return np.concatenate(out)


def walk(cfg, f=None):
  """Sorted, de-duplicated float32 walk (plus -0.0 appended).  Returns
  (xs, n_excluded_by_cancellation_bound)."""
  f = f or R.fmt(cfg)
  lo, hi = f["lo"], f["hi"]
  extra_neg = int(round(-math.log2(f["slope"]))) if f["slope"] else 0
  e_lo = max(lo - 2, -126)
  e_hi = min(hi + 2 + extra_neg, FMAX_EXP)
  es = np.arange(e_lo, e_hi + 1)
  # the epsilon floor hides everything below 2^-24: keep those exponents sparse
  es = es[(es >= -27) | (es % 8 == 0) | (es <= e_lo + 2)]
  p2 = np.ldexp(1.0, es)
  centers = np.concatenate([p2, math.sqrt(2.0) * p2]).astype(F32)
  pts = [_steps(centers, ULP_OFFSETS),
         (1.25 * p2).astype(F32), (1.75 * p2).astype(F32)]
  special = [R.EPS32]
  if f["max_value"] is not None:
    special.append(f["max_value"])
  pts.append(_steps(np.array(special, dtype=F32), [0, 1, 2, 3, 8, 64]))
  big = 2.0 ** (bound_exp(f) - 1)
  pts.append(np.array([big * 1.999, big * 1.5, big * 1.0000001, big / 3.0,
                       2.0 ** -126, 2.0 ** -125, 1.5 * 2.0 ** -126,
                       3.0e38, 1e30, 1e10, 2.0 ** 24, 2.0 ** 31],
                      dtype=np.float64).clip(0, 3.4e38).astype(F32))
  # around and far beyond 2^24 * 2^top (kept only where the surrogate allows)
  t24 = np.array([2.0 ** min(f["top"] + k, FMAX_EXP) for k in (22, 23, 24, 25, 26, 30, 40)])
  pts.append(_steps(t24.astype(F32), [0, 1, 2, 64]))
  pts.append(np.array([1.5 * 2.0 ** min(f["top"] + 24, 126), 1e8, 1e15, 1e20,
                       2.0 ** 64, 2.0 ** 100, 2.0 ** 127, 3.4028235e38],
                      dtype=np.float64).astype(F32))
  pos = np.unique(np.concatenate(pts))
  pos = pos[np.isfinite(pos) & (pos > 0)]
  neg = -pos
  sub = np.array([0.0, 1e-45, -1e-45, 1e-40, -1e-40, 1.1e-38, -1.1e-38],
                 dtype=F32)
  nb = 2.0 ** bound_exp(f, negative=True)
  pb = 2.0 ** bound_exp(f, negative=False)
  p64 = pos.astype(np.float64)
  keep_p = (p64 < pb) & ~_in_band(p64, low_band(f, False))
  keep_n = (p64 < nb) & ~_in_band(p64, low_band(f, True))
  s64 = sub.astype(np.float64)
  keep_s = ~np.where(s64 < 0, _in_band(-s64, low_band(f, True)),
                     _in_band(s64, low_band(f, False)))
  sub = sub[keep_s]
  excluded = int((~keep_p).sum() + (~keep_n).sum() + (~keep_s).sum())
  xs = np.unique(np.concatenate([pos[keep_p], neg[keep_n], sub]))
  xs = np.concatenate([xs, np.array([-0.0], dtype=F32)])
  return xs, excluded


def scalar_points(cfg, f=None, offs=(0,)):
  """Exact powers of two and sqrt(2)*2^e (+-1 ulp) over the visible exponent
  range; evaluated in chunks of 7 elements so that Eigen's scalar (non
  vectorised, tensor size % packet size) kernels are exercised too."""
  f = f or R.fmt(cfg)
  e_lo = max(f["lo"] - 1, -24)
  e_hi = min(f["hi"] + 1, FMAX_EXP, bound_exp(f) - 1)
  es = np.arange(e_lo, e_hi + 1)
  p2 = np.ldexp(1.0, es)
  c = np.concatenate([p2, math.sqrt(2.0) * p2]).astype(F32)
  pos = np.unique(_steps(c, list(offs)))
  p64 = pos.astype(np.float64)
  keep_p = (p64 < 2.0 ** bound_exp(f)) & ~_in_band(p64, low_band(f, False))
  if f["relu"] and not f["slope"]:
    return pos[keep_p]
  keep_n = (p64 < 2.0 ** bound_exp(f, True)) & ~_in_band(p64, low_band(f, True))
  return np.concatenate([-pos[keep_n][::-1], pos[keep_p]])


# ---------------------------------------------------------------------------
# Hypothesis


def tensor_strategy(f, max_elems=48):
  """Tensors of rank 0..4.  Elements are built from (family, exponent,
  offset, sign) so that every value is inside the generation bound by
  construction (no filtering)."""
  from hypothesis import strategies as st  # pylint: disable=g-import-not-at-top
  lo, hi, top = f["lo"], f["hi"], f["top"]
  sl_shift = int(round(-math.log2(f["slope"]))) if f["slope"] else 0

  def mk(fam, e, off, mant, negative):
    be = bound_exp(f, negative=negative)
    shift = sl_shift if negative else 0
    e = e + shift
    e = max(-126, min(e, be - 1, FMAX_EXP))
    if fam == "pow2":
      c = F32(2.0 ** e)
    elif fam == "sqrt2":
      c = F32(math.sqrt(2.0) * 2.0 ** e)
    else:
      c = F32((1.0 + mant / 8388608.0) * 2.0 ** e)
    if fam != "mant":
      b = int(np.asarray(c).view(np.int32)) + off
      b = max(0x00800000, min(b, 0x7F7FFFFF))
      c = np.array(b, dtype=np.int32).view(F32)
    v = float(c)
    if not v < 2.0 ** be:                # offset crossed the bound: step back
      v = float(np.nextafter(F32(2.0 ** be) if be <= FMAX_EXP else F32(3.4028235e38), F32(0)))
    band = low_band(f, negative)
    if band is not None and band[0] <= v < band[1]:
      # move out of the low cancellation band, keeping the mantissa: below it
      # when normal floats exist there, else just above epsilon
      mm, ee = math.frexp(v)
      tgt = math.frexp(band[0])[1] - 1         # exponent of the band start
      if tgt - 1 >= -126:
        v = math.ldexp(mm, tgt)                # < band start
      else:
        v = math.ldexp(mm, math.frexp(band[1])[1] + 1)
    return -v if negative else v

  e_any = st.integers(max(lo - 3, -126), min(hi + 3, FMAX_EXP))
  e_far = st.integers(-126, FMAX_EXP)
  off = st.one_of(st.integers(-3, 3), st.sampled_from([-64, 64, -4096, 4096]))
  fam = st.sampled_from(["pow2", "sqrt2", "mant"])
  mant = st.integers(0, 8388607)
  elem_near = st.builds(mk, fam, e_any, off, mant, st.booleans())
  elem_far = st.builds(mk, fam, e_far, off, mant, st.booleans())

  fmax = float(F32(3.4028235e38))
  specials = [0.0, -0.0, 1e-45, -1e-45, 1e-40, -1e-40, float(F32(2.0 ** -126)),
              -float(F32(2.0 ** -126)), fmax, -fmax, 1e8, -1e8,
              2.0 ** min(top + 24, 127), -(2.0 ** min(top + 24, 127)),
              float(F32(1.5 * 2.0 ** min(top + 25, 126)))]
  for c in [R.EPS32] + ([f["max_value"]] if f["max_value"] is not None else []):
    for o in (-2, -1, 0, 1, 2):
      b = int(np.asarray(F32(c)).view(np.int32)) + o
      v = float(np.array(b, dtype=np.int32).view(F32))
      specials += [v, -v]
  nb, pb = 2.0 ** bound_exp(f, True), 2.0 ** bound_exp(f, False)
  specials = [v for v in specials if (-nb < v < pb)
              and not _in_band(abs(v), low_band(f, v < 0))]
  elem = st.one_of(elem_near, elem_near, elem_far, st.sampled_from(specials))
  shape = st.lists(st.integers(1, 4), min_size=0, max_size=4).filter(
      lambda s: int(np.prod(s)) <= max_elems if s else True)

  @st.composite
  def t(draw):
    shp = draw(shape)
    n = int(np.prod(shp)) if shp else 1
    vals = draw(st.lists(elem, min_size=n, max_size=n))
    return {"shape": shp, "xs": [float(F32(v)) for v in vals]}
  return t()
