"""Plain-Keras model descriptions (JSON DSL), builder and Hypothesis strategy.

A model description is a pure value:

  {"api": "sequential" | "functional",
   "seq_input": "kw" | "layer",           # sequential only: how the input is given
   "input_shape": [..],                    # without batch axis
   "layers": [ {"name": str, "cls": str, "kw": {...}, "in": [names]} , ...],
   "outputs": [names],                     # functional: model outputs
   "wseed": int}                           # seed of the explicit weights

The input tensor is called "in0".  `kw` are the constructor keyword arguments
of `tf.keras.layers.<cls>` (lists stand for tuples); `Bidirectional` carries the
wrapped layer as {"layer": {"name","cls","kw"}, "merge_mode": ...} and
optionally an explicit {"backward_layer": {"name","cls","kw"}} (go_backwards=True).  Merge
layers (`Add`, `Concatenate`, `Multiply`) have several names in "in".
`GlobalAveragePooling2D` is generated with its constructor options keepdims
(unset / True / False) and data_format (unset / channels_last / channels_first),
alone in a chain and as the head of a squeeze-and-excite block
(gap(keepdims=True) -> 1x1 Conv2D / Dense -> Multiply with the block input);
`Flatten` and the 2-D pooling layers sometimes carry an explicit data_format.

Shapes are constructed, never rejected: every generator step knows the shape of
the tensor it extends (spatial 4..12, channels 1..4, kernel <= spatial under
"valid", dilation only with stride 1, at most MAX_LAYERS layers).

`build(desc)` returns a built `tf.keras` model whose weights were all set
explicitly from `RandomState(wseed)` (never left to initializers), so a case is
a value.

Environment limits respected by construction (see vf/README.md): GRU is
generated with reset_after=False (QGRU's reset_after branch needs
`array_ops.unstack`, missing in this TF); `Conv2DTranspose` appears as a plain
layer only (callers must not select it: QConv2DTranspose cannot be built here).
"""
import math

import numpy as np

MAX_LAYERS = 8
INPUT_NAME = "in0"

# every activation name tf_keras' activations.get() resolves (silu is left out:
# it serialises as "swish").  Only exactly relu / tanh / sigmoid are rewritten
# by model_quantize; they keep about a third of the weight.
OTHER_ACTS = ["elu", "exponential", "gelu", "hard_sigmoid", "mish", "selu",
              "softplus", "softsign", "swish", "leaky_relu", "relu6",
              "log_softmax"]
ACTS = [None, "linear", "softmax", "relu", "relu", "relu", "tanh", "tanh",
        "sigmoid", "sigmoid", "hard_sigmoid", "leaky_relu"] + OTHER_ACTS
RNN_ACTS = ["tanh", "tanh", "relu", "sigmoid", "linear", "hard_sigmoid", "elu",
            "softsign", "relu6", "leaky_relu", "swish"]

DATA_FORMATS = ["channels_last", "channels_first"]
MERGES = ("Add", "Concatenate", "Multiply")

_TUPLE_KEYS = ("kernel_size", "strides", "dilation_rate", "pool_size")


# --------------------------------------------------------------------------
# builder


def _kw(kw):
  out = {}
  for k, v in kw.items():
    if k in _TUPLE_KEYS and isinstance(v, list):
      v = tuple(v)
    out[k] = v
  return out


def make_layer(ld, extra=None):
  """Instantiates the stock Keras layer described by `ld`."""
  import tensorflow as tf  # pylint: disable=g-import-not-at-top
  L = tf.keras.layers
  kw = _kw(ld["kw"])
  if extra:
    kw.update(extra)
  if ld["cls"] == "Bidirectional":
    inner = kw.pop("layer")
    if kw.get("backward_layer") is not None:
      kw["backward_layer"] = make_layer(kw["backward_layer"])
    return L.Bidirectional(make_layer(inner), name=ld["name"], **kw)
  return getattr(L, ld["cls"])(name=ld["name"], **kw)


def build(desc, set_weights=True):
  """Builds the tf.keras model of a description."""
  import tensorflow as tf  # pylint: disable=g-import-not-at-top
  shape = tuple(desc["input_shape"])
  if desc["api"] == "sequential":
    layers = []
    for i, ld in enumerate(desc["layers"]):
      extra = None
      if i == 0 and desc.get("seq_input", "kw") == "kw":
        extra = {"input_shape": shape}
      layers.append(make_layer(ld, extra))
    if desc.get("seq_input", "kw") == "layer":
      layers = [tf.keras.Input(shape=shape, name=INPUT_NAME)] + layers
    model = tf.keras.Sequential(layers)
  else:
    xi = tf.keras.Input(shape=shape, name=INPUT_NAME)
    t = {INPUT_NAME: xi}
    for ld in desc["layers"]:
      ins = [t[n] for n in ld["in"]]
      lay = make_layer(ld)
      t[ld["name"]] = lay(ins if len(ins) > 1 else ins[0])
    outs = [t[n] for n in desc["outputs"]]
    model = tf.keras.Model(xi, outs if len(outs) > 1 else outs[0])
  if set_weights:
    assign_weights(model, desc.get("wseed", 0))
  return model


def assign_weights(model, wseed):
  """Explicit weights: uniform(-1.5, 1.5), variances positive."""
  rs = np.random.RandomState(int(wseed) % (2 ** 31))
  for lay in model.layers:
    ws = lay.get_weights()
    if not ws:
      continue
    names = [w.name for w in lay.weights]
    new = []
    for w, n in zip(ws, names):
      v = rs.uniform(-1.5, 1.5, size=w.shape).astype(np.float32)
      if "variance" in n:
        v = np.abs(v) + np.float32(0.25)
      new.append(v)
    lay.set_weights(new)


# --------------------------------------------------------------------------
# pure-python view of a description


def layer_index(desc):
  return {ld["name"]: ld for ld in desc["layers"]}


def expected_inbound(desc):
  """{layer name: [inbound layer names]} as the description defines it."""
  return {ld["name"]: list(ld["in"]) for ld in desc["layers"]}


def classes_in(desc):
  out = []
  for ld in desc["layers"]:
    out.append(ld["cls"])
    if ld["cls"] == "Bidirectional":
      out.append("Bidirectional:" + ld["kw"]["layer"]["cls"])
      if ld["kw"].get("backward_layer"):
        out.append("Bidirectional:backward:" + ld["kw"]["backward_layer"]["cls"])
  return out


# --------------------------------------------------------------------------
# shape arithmetic


def _conv_len(n, k, s, d, padding):
  if padding in ("same", "causal"):
    return int(math.ceil(n / float(s)))
  ke = (k - 1) * d + 1
  return (n - ke) // s + 1


# --------------------------------------------------------------------------
# Hypothesis strategy


def model_descs(max_layers=MAX_LAYERS, families=("image", "seq", "vec"),
                allow_rnn=True, allow_functional=True, max_rnn=2):
  """Strategy for model descriptions."""
  from hypothesis import strategies as st  # pylint: disable=g-import-not-at-top

  @st.composite
  def gen(draw):
    g = _Gen(draw, st, max_layers, allow_rnn, max_rnn)
    weights = {"image": 3, "seq": 2, "vec": 1}
    fam = draw(st.sampled_from([f for f in families
                                for _ in range(weights.get(f, 1))]))
    api = draw(st.sampled_from(["functional", "functional", "sequential"])
               if allow_functional else st.just("sequential"))
    if fam == "image":
      shape = [draw(st.integers(4, 12)), draw(st.integers(4, 12)),
               draw(st.integers(1, 3))]
    elif fam == "seq":
      shape = [draw(st.integers(3, 6)), draw(st.integers(1, 3))]
    else:
      shape = [draw(st.integers(1, 6))]
    n = draw(st.integers(1, max_layers))
    g.run(shape, n, functional=(api == "functional"))
    desc = {"api": api, "input_shape": shape, "layers": g.layers,
            "wseed": draw(st.integers(0, 9999))}
    if api == "sequential":
      desc["seq_input"] = draw(st.sampled_from(["kw", "layer"]))
      desc["outputs"] = [g.layers[-1]["name"]]
    else:
      outs = [g.cur]
      # optionally a second output tapped from an earlier layer
      earlier = [ld["name"] for ld in g.layers if ld["name"] != g.cur]
      if earlier and draw(st.integers(0, 5)) == 0:
        outs.append(draw(st.sampled_from(earlier)))
      desc["outputs"] = outs
    return desc

  return gen()


class _Gen(object):
  """Incremental constructor of a layer list with shape tracking."""

  def __init__(self, draw, st, max_layers, allow_rnn, max_rnn):
    self.draw, self.st = draw, st
    self.max_layers = max_layers
    self.allow_rnn = allow_rnn
    self.max_rnn = max_rnn
    self.layers = []
    self.cur = INPUT_NAME
    self.shape = None
    self.n_rnn = 0
    self.n_target = 1

  # ---- helpers
  def i(self, lo, hi):
    return self.draw(self.st.integers(lo, hi))

  def pick(self, seq):
    return self.draw(self.st.sampled_from(list(seq)))

  def flag(self):
    return self.draw(self.st.booleans())

  def name(self, short):
    return "%s_%d" % (short, len(self.layers) + 1)

  def add(self, cls, short, kw, shape, ins=None):
    ld = {"name": self.name(short), "cls": cls, "kw": kw,
          "in": list(ins) if ins is not None else [self.cur]}
    self.layers.append(ld)
    self.cur = ld["name"]
    self.shape = list(shape)
    return ld

  def may_collapse(self):
    """Rank-reducing layers only in the second half of the chain, so that
    convolutional / recurrent layers are not crowded out by Dense."""
    return len(self.layers) * 2 >= self.n_target - 1

  def room(self):
    return self.max_layers - len(self.layers)

  # ---- driver
  def run(self, shape, n, functional):
    self.shape = list(shape)
    self.n_target = n
    while len(self.layers) < n:
      if (functional and len(self.shape) == 3 and
          len(self.layers) + 3 <= n and self.i(0, 5) == 0):
        self.se_block(n - len(self.layers))
      elif (functional and self.room() >= 2 and len(self.layers) + 2 <= n and
            self.i(0, 3) == 0):
        self.branch_block(n - len(self.layers))
      else:
        self.step(preserve=None)

  # ---- one chain step; preserve in (None, "spatial", "all")
  def step(self, preserve):
    r = len(self.shape)
    if r == 3:
      self.step_image(preserve)
    elif r == 2:
      self.step_seq(preserve)
    else:
      self.step_vec(preserve)

  # common element-wise layers -------------------------------------------
  def elementwise(self, kind):
    s = self.shape
    if kind == "Activation":
      self.add("Activation", "act",
               {"activation": self.pick(["relu", "relu", "tanh", "sigmoid",
                                         "softmax", "linear"])}, s)
    elif kind == "ReLU":
      kw = {}
      v = self.i(0, 3)
      if v == 1:
        kw["max_value"] = 6.0
      elif v == 2:
        kw["negative_slope"] = self.pick([0.25, 0.125])
      elif v == 3:
        kw["max_value"] = 4.0
        kw["threshold"] = 0.0
      self.add("ReLU", "relu", kw, s)
    elif kind == "LeakyReLU":
      self.add("LeakyReLU", "leaky", {"alpha": self.pick([0.25, 0.125, 0.3])},
               s)
    elif kind == "BatchNormalization":
      kw = {}
      if self.flag():
        kw["momentum"] = self.pick([0.9, 0.5])
      if self.flag():
        kw["epsilon"] = self.pick([0.01, 1e-5])
      if self.i(0, 3) == 0:
        kw["center"] = False
      if self.i(0, 3) == 0:
        kw["scale"] = False
      self.add("BatchNormalization", "bn", kw, s)
    elif kind == "Dropout":
      self.add("Dropout", "drop", {"rate": self.pick([0.25, 0.5])}, s)
    else:
      raise ValueError(kind)

  def pick_elementwise(self):
    return self.pick(["Activation", "Activation", "ReLU", "ReLU", "LeakyReLU",
                      "LeakyReLU", "BatchNormalization", "BatchNormalization",
                      "Dropout"])

  # rank-3 tensors (H, W, C) ---------------------------------------------
  def step_image(self, preserve):
    h, w, c = self.shape
    opts = ["Conv2D"] * 4 + ["DepthwiseConv2D"] * 2 + ["SeparableConv2D"] * 2
    opts += ["AveragePooling2D"] * 2 + ["MaxPooling2D", "Conv2DTranspose"]
    opts += ["elementwise"] * 5
    if preserve is None and self.may_collapse():
      opts += ["GlobalAveragePooling2D"] * 2 + ["Flatten"] * 2
    kind = self.pick(opts)
    same_only = preserve is not None
    keep_c = preserve == "all"
    if kind == "elementwise":
      return self.elementwise(self.pick_elementwise())
    if kind == "Flatten":
      kw = {}
      if self.i(0, 3) == 0:
        kw["data_format"] = self.pick(DATA_FORMATS)
      return self.add("Flatten", "flat", kw, [h * w * c])
    if kind == "GlobalAveragePooling2D":
      return self.gap(self.pick([None, None, True, True, False]),
                      self.pick([None, None, None] + DATA_FORMATS))
    if kind in ("Conv2D", "SeparableConv2D", "DepthwiseConv2D"):
      padding = "same" if same_only else self.pick(["same", "valid"])
      kmax = 3 if padding == "same" else min(3, h, w)
      k = [self.i(1, kmax), self.i(1, kmax)]
      s = [1, 1]
      d = [1, 1]
      if not same_only:
        v = self.i(0, 3)
        if v == 0:
          sv = self.i(2, 3)
          s = [sv, sv]
        elif v == 1 and kind != "SeparableConv2D":
          dil = 2
          if padding == "same" or ((k[0] - 1) * dil + 1 <= h and
                                   (k[1] - 1) * dil + 1 <= w):
            d = [dil, dil]
      kw = {"kernel_size": k, "strides": s, "padding": padding,
            "use_bias": self.i(0, 2) != 0, "activation": self.pick(ACTS)}
      if d != [1, 1]:
        kw["dilation_rate"] = d
      oh = _conv_len(h, k[0], s[0], d[0], padding)
      ow = _conv_len(w, k[1], s[1], d[1], padding)
      if kind == "DepthwiseConv2D":
        dm = 1 if keep_c else self.i(1, 2)
        if dm != 1:
          kw["depth_multiplier"] = dm
        return self.add(kind, "dw", kw, [oh, ow, c * dm])
      kw["filters"] = c if keep_c else self.i(1, 4)
      if kind == "SeparableConv2D" and self.flag():
        kw["depth_multiplier"] = 2
      return self.add(kind, "conv" if kind == "Conv2D" else "sep", kw,
                      [oh, ow, kw["filters"]])
    if kind == "Conv2DTranspose":
      f = c if keep_c else self.i(1, 3)
      k = self.i(1, 3)
      sv = 2 if (not same_only and max(h, w) <= 6 and self.flag()) else 1
      kw = {"filters": f, "kernel_size": [k, k], "strides": [sv, sv],
            "padding": "same", "use_bias": self.flag(),
            "activation": self.pick([None, "relu"])}
      return self.add(kind, "convt", kw, [h * sv, w * sv, f])
    # pooling; with data_format=channels_first the tensor is read as
    # (C, H, W) = (h, w, c) and the last two axes are pooled
    cf = (not same_only) and self.i(0, 5) == 0
    a, b = (w, c) if cf else (h, w)
    padding = "same" if same_only else self.pick(["same", "valid"])
    pmax = 3 if padding == "same" else min(3, a, b)
    p = self.i(1, pmax) if pmax < 2 else self.i(2, pmax)
    kw = {"pool_size": [p, p], "padding": padding}
    if cf:
      kw["data_format"] = "channels_first"
    elif self.i(0, 4) == 0:
      kw["data_format"] = "channels_last"     # the default, spelled out
    if same_only:
      sv = 1
      kw["strides"] = [1, 1]
    else:
      v = self.i(0, 2)
      if v == 0:
        sv = p          # Keras default strides=None -> pool_size
      else:
        sv = v
        kw["strides"] = [sv, sv]
    oa = _conv_len(a, p, sv, 1, padding)
    ob = _conv_len(b, p, sv, 1, padding)
    return self.add(kind, "avgp" if kind.startswith("Average") else "maxp", kw,
                    [h, oa, ob] if cf else [oa, ob, c])

  def gap(self, keepdims, data_format):
    """GlobalAveragePooling2D with its two constructor options: keepdims
    (unset / True / False) and data_format (unset / channels_last /
    channels_first).  The rank-3 shape is read as (H, W, C) or (C, H, W)."""
    h, w, c = self.shape
    kw = {}
    if keepdims is not None:
      kw["keepdims"] = keepdims
    if data_format is not None:
      kw["data_format"] = data_format
    if data_format == "channels_first":
      shape = [h, 1, 1] if keepdims else [h]
    else:
      shape = [1, 1, c] if keepdims else [c]
    return self.add("GlobalAveragePooling2D", "gap", kw, shape)

  def se_block(self, budget):
    """Squeeze-and-excite: GlobalAveragePooling2D(keepdims=True) ->
    [1x1 Conv2D squeeze] -> 1x1 Conv2D / Dense back to C channels ->
    Multiply with the block input (broadcast over H, W).  3 or 4 layers."""
    root, (h, w, c) = self.cur, self.shape
    self.gap(True, self.pick([None, None, "channels_last"]))
    if budget >= 4 and self.room() >= 4 and self.flag():
      r = self.i(1, 2)
      self.add("Conv2D", "conv",
               {"filters": r, "kernel_size": [1, 1],
                "use_bias": self.i(0, 2) != 0, "activation": "relu"},
               [1, 1, r])
    gate = self.pick(["sigmoid", "sigmoid", "hard_sigmoid", "relu", None])
    if self.flag():
      self.add("Conv2D", "conv",
               {"filters": c, "kernel_size": [1, 1],
                "use_bias": self.i(0, 2) != 0, "activation": gate}, [1, 1, c])
    else:
      self.add("Dense", "dense",
               {"units": c, "use_bias": self.i(0, 2) != 0,
                "activation": gate}, [1, 1, c])
    self.add("Multiply", "mul", {}, [h, w, c], ins=[root, self.cur])

  # rank-2 tensors (T, C) ---------------------------------------------------
  def rnn_kw(self, cls, units, return_sequences):
    kw = {"units": units, "return_sequences": return_sequences,
          "use_bias": self.i(0, 2) != 0,
          "activation": self.pick(RNN_ACTS + ["tanh"])}
    if self.i(0, 4) == 0:
      kw["go_backwards"] = True
    if cls in ("LSTM", "GRU"):
      kw["recurrent_activation"] = self.pick(["sigmoid", "hard_sigmoid"])
    if cls == "GRU":
      kw["reset_after"] = False
    if cls == "LSTM" and self.flag():
      kw["unit_forget_bias"] = False
    return kw

  def step_seq(self, preserve):
    t, c = self.shape
    opts = ["Conv1D"] * 4 + ["SeparableConv1D"] * 2 + ["elementwise"] * 4
    can_rnn = self.allow_rnn and self.n_rnn < self.max_rnn
    if can_rnn:
      opts += ["SimpleRNN", "LSTM", "GRU", "Bidirectional", "Bidirectional"]
    if preserve is None and self.may_collapse():
      opts += ["Flatten"] * 2
    kind = self.pick(opts)
    same_only = preserve is not None
    keep_c = preserve == "all"
    if kind == "elementwise":
      return self.elementwise(self.pick(["Activation", "Activation",
                                         "BatchNormalization", "LeakyReLU",
                                         "LeakyReLU", "ReLU", "ReLU",
                                         "Dropout"]))
    if kind == "Flatten":
      return self.add("Flatten", "flat", {}, [t * c])
    if kind in ("Conv1D", "SeparableConv1D"):
      pads = ["same"] if same_only else ["same", "valid"]
      if kind == "Conv1D":
        pads = pads + ["causal"]
      padding = self.pick(pads)
      kmax = 3 if padding != "valid" else min(3, t)
      k = self.i(1, kmax)
      s, d = 1, 1
      if not same_only:
        v = self.i(0, 3)
        if v == 0:
          s = 2
        elif v == 1 and kind == "Conv1D" and (
            padding != "valid" or (k - 1) * 2 + 1 <= t):
          d = 2
      f = c if keep_c else self.i(1, 4)
      kw = {"filters": f, "kernel_size": [k], "strides": [s],
            "padding": padding, "use_bias": self.i(0, 2) != 0,
            "activation": self.pick(ACTS)}
      if d != 1:
        kw["dilation_rate"] = [d]
      ot = _conv_len(t, k, s, d, padding)
      return self.add(kind, "conv1d" if kind == "Conv1D" else "sep1d", kw,
                      [ot, f])
    # recurrent
    self.n_rnn += 1
    rs = True if (same_only or not self.may_collapse()) else self.flag()
    u = c if keep_c else self.i(1, 3)
    if kind == "Bidirectional":
      inner_cls = self.pick(["LSTM", "SimpleRNN", "GRU"])
      mm = self.pick(["sum", "ave", "mul"]) if keep_c else self.pick(
          ["concat", "concat", "sum", "ave"])
      inner = {"name": "%s_in_%d" % (inner_cls.lower(), len(self.layers) + 1),
               "cls": inner_cls, "kw": self.rnn_kw(inner_cls, u, rs)}
      inner["kw"].pop("go_backwards", None)
      oc = 2 * u if mm == "concat" else u
      bkw = {"layer": inner, "merge_mode": mm}
      if self.i(0, 2) == 0:
        # explicit backward layer: own name, go_backwards=True, same units and
        # return_sequences (Keras' constraints); own bias / activations, and
        # sometimes another recurrent class
        bcls = inner_cls if self.i(0, 2) else self.pick(
            ["LSTM", "SimpleRNN", "GRU"])
        bw = {"name": "%s_bw_%d" % (bcls.lower(), len(self.layers) + 1),
              "cls": bcls, "kw": self.rnn_kw(bcls, u, rs)}
        bw["kw"]["go_backwards"] = True
        bkw["backward_layer"] = bw
      return self.add("Bidirectional", "bidi", bkw, [t, oc] if rs else [oc])
    kw = self.rnn_kw(kind, u, rs)
    return self.add(kind, kind.lower(), kw, [t, u] if rs else [u])

  # rank-1 tensors (C,) ------------------------------------------------------
  def step_vec(self, preserve):
    (c,) = self.shape
    kind = self.pick(["Dense"] * 5 + ["elementwise"] * 3)
    if kind == "elementwise":
      return self.elementwise(self.pick_elementwise())
    u = c if preserve == "all" else self.i(1, 6)
    kw = {"units": u, "use_bias": self.i(0, 2) != 0,
          "activation": self.pick(ACTS)}
    return self.add("Dense", "dense", kw, [u])

  # branches + merge ---------------------------------------------------------
  def branch_block(self, budget):
    """Two branches of shape-compatible layers from the current tensor, merged
    by Add (identical shapes) or Concatenate (last axis)."""
    merge = self.pick(["Add", "Concatenate"])
    preserve = "all" if merge == "Add" else "spatial"
    root, root_shape = self.cur, list(self.shape)
    budget = min(budget, self.room()) - 1
    n1 = self.i(0, min(2, budget))
    n2 = self.i(0 if n1 > 0 else 1, max(min(2, budget - n1), 0 if n1 > 0 else 1))
    ends = []
    for nb in (n1, n2):
      self.cur, self.shape = root, list(root_shape)
      for _ in range(nb):
        self.step(preserve=preserve)
      ends.append((self.cur, list(self.shape)))
    names = [e[0] for e in ends]
    if merge == "Add":
      shape = ends[0][1]
      self.add("Add", "add", {}, shape, ins=names)
    else:
      shape = list(ends[0][1])
      shape[-1] = ends[0][1][-1] + ends[1][1][-1]
      self.add("Concatenate", "concat", {"axis": -1}, shape, ins=names)
