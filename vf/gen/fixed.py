"""Fixed-point quantizer family: option lattice, reference format model
(re-derived from the docstrings), breakpoint walks, Hypothesis strategies.

A *config* is {"cls": name, "kw": {...}, "sigmoid": "hard"|"smooth"|"real"}.
The reference model of a config is a dict:
  u        grid unit (float, exact)
  kmin,kmax  admissible integer codes
  sign     True for the 1-bit sign modes (codes {-1,+1} on unit u)
  surr     name of the underlying activation ("id","relu","tanh","sigmoid",
           "relu_sigmoid")
  slope    leaky slope (relu)
  neg_sat  code value at which the leaky branch saturates (may be fractional)
  bound    |x| bound of the property's domain (2^24 steps), generation uses
           a conservative part of it
"""
import itertools
import math

import numpy as np

F32 = np.float32


def lattice(tier):
  """Deterministic list of configurations."""
  cfgs = []
  bits_list = [1, 2, 3, 4, 5, 6, 8] if tier == "quick" else [1, 2, 3, 4, 5, 6, 7, 8, 10, 12, 16]
  ints = [0, 1, 2, 3]
  alphas = [None, 1.0, 0.5, 2.0, 0.25] if tier != "quick" else [None, 0.5, 2.0]
  # quantized_bits (negative integer bits are accepted by quantized_bits and
  # quantized_linear - fractional-only formats - but not by quantized_relu)
  ints_signed = [-2, -1] + ints
  for b, i, kn, s, a in itertools.product(bits_list, ints_signed, [1, 0], [0, 1], alphas):
    if i < 0 and (b in (1, 5, 6, 7, 10, 12) or (a is not None and a != 0.5)):
      continue
    if i > b - kn and not (b == 2 and i == 3):
      continue
    if b - kn == 0 and i != 0:
      continue
    if tier == "quick" and b in (5, 6) and a is not None:
      continue
    cfgs.append({"cls": "quantized_bits",
                 "kw": {"bits": b, "integer": i, "symmetric": s,
                        "keep_negative": bool(kn), "alpha": a}})
  # quantized_linear (alpha passed as python float -> tensor-like constant)
  for b, i, kn, s, a in itertools.product(bits_list, ints_signed, [1, 0], [0, 1], alphas):
    if i > b - kn:
      continue
    if i < 0 and (b in (1, 5, 6, 7, 10, 12) or (a is not None and a != 0.5)):
      continue
    if tier == "quick" and b in (5, 6) and a is not None:
      continue
    cfgs.append({"cls": "quantized_linear",
                 "kw": {"bits": b, "integer": i, "symmetric": s,
                        "keep_negative": bool(kn), "alpha": a}})
  # quantized_relu
  slopes = [0.0, 0.5, 0.25, 0.125]
  for b, i, sl in itertools.product(bits_list, ints, slopes):
    if i > b or (sl != 0.0 and b < 2):
      continue
    cfgs.append({"cls": "quantized_relu",
                 "kw": {"bits": b, "integer": i, "negative_slope": sl}})
    if sl == 0.0:
      # unbounded relu surrogate; quantized value still saturates at top code
      cfgs.append({"cls": "quantized_relu",
                   "kw": {"bits": b, "integer": i, "negative_slope": sl,
                          "is_quantized_clip": False}})
      # upper bound on the grid (the docstring asks for a bound appropriate
      # to the quantization parameters): half of the range, and the top code
      step = 2.0 ** (i - b)
      for ub in sorted(set([max(step, 2.0 ** (i - 1)), 2.0 ** i - step])):
        cfgs.append({"cls": "quantized_relu",
                     "kw": {"bits": b, "integer": i, "negative_slope": sl,
                            "is_quantized_clip": False,
                            "relu_upper_bound": ub}})
  # relu_upper_bound given while is_quantized_clip keeps its default (True): the
  # docstring says is_quantized_clip has precedence, so the bound is ignored by the
  # value map and min()/max()/range() must describe the clip-at-top-code format
  for b, i, sl in itertools.product([2, 3, 4, 5, 8], [0, 1, 2], [0.0, 0.125, 0.5]):
    if i > b:
      continue
    nsb = b - (1 if sl else 0)
    stp = 2.0 ** (i - nsb)
    for ub in sorted(set([max(stp, 2.0 ** (i - 1)), 3 * stp, 2.0 ** i + 1.0])):
      cfgs.append({"cls": "quantized_relu",
                   "kw": {"bits": b, "integer": i, "negative_slope": sl,
                          "relu_upper_bound": ub}})
  for b, i, sl, sg in itertools.product([2, 3, 4, 6, 8], [0, 1, 2], [0.0, 0.25],
                                        ["hard", "smooth", "real"]):
    if i > b:
      continue
    cfgs.append({"cls": "quantized_relu",
                 "kw": {"bits": b, "integer": i, "negative_slope": sl,
                        "use_sigmoid": 1}, "sigmoid": sg})
  # tanh / sigmoid
  tb = [2, 3, 4, 5, 6, 8] if tier == "quick" else [2, 3, 4, 5, 6, 7, 8, 10, 12]
  for b, s in itertools.product(tb, [0, 1]):
    for mode in ["hard", "smooth", "real", "own_real"]:
      kw = {"bits": b, "symmetric": s}
      if mode == "own_real":
        kw["use_real_tanh"] = True
        cfgs.append({"cls": "quantized_tanh", "kw": kw})
      else:
        cfgs.append({"cls": "quantized_tanh", "kw": kw, "sigmoid": mode})
      kw = {"bits": b, "symmetric": s}
      if mode == "own_real":
        kw["use_real_sigmoid"] = True
        cfgs.append({"cls": "quantized_sigmoid", "kw": kw})
      else:
        cfgs.append({"cls": "quantized_sigmoid", "kw": kw, "sigmoid": mode})
  # use_stochastic_rounding=True evaluated in the inference phase (learning
  # phase 0, which every case asserts): the flag must not change the codes
  sr = []
  for c in cfgs:
    kw = c["kw"]
    if kw.get("bits") in (2, 4, 8) and kw.get("integer", 0) in (0, 1) and kw.get("alpha") is None \
        and not kw.get("use_sigmoid") and kw.get("is_quantized_clip", True):
      if c["cls"] == "quantized_relu" and kw.get("negative_slope") not in (0.0, 0.25):
        continue
      sr.append({"cls": c["cls"], "kw": dict(kw, use_stochastic_rounding=True),
                 **({"sigmoid": c["sigmoid"]} if "sigmoid" in c else {})})
  cfgs += sr
  # use_ste=False (the non-straight-through blend (1-f)*x + f*xq; QNoiseScheduler can
  # leave quantizers in this mode): at the default qnoise_factor the value map is the
  # same as with use_ste=True
  ns = []
  for c in cfgs:
    kw = c["kw"]
    if c["cls"] in ("quantized_bits", "quantized_relu") and kw.get("bits") in (1, 2, 3, 4, 8) \
        and kw.get("integer", 0) in (0, 1, 2) and not kw.get("use_stochastic_rounding") \
        and not kw.get("use_sigmoid") and kw.get("alpha") in (None, 2.0):
      if c["cls"] == "quantized_relu" and kw.get("negative_slope") not in (0.0, 0.25):
        continue
      ns.append({"cls": c["cls"], "kw": dict(kw, use_ste=False)})
  cfgs += ns
  # live re-declaration: build configuration A, call it once, assign the public
  # attributes so that the object now declares configuration B (the library itself
  # re-assigns quantizer attributes on live objects, e.g. QAdaptiveActivation sets
  # quantizer.integer, layers call _set_trainable_parameter); the object must then
  # behave exactly like a freshly built B.
  muts = []
  base = [c for c in cfgs if not c["kw"].get("use_stochastic_rounding")]
  step = 5 if tier == "quick" else 2
  for idx in range(0, len(base), step):
    b_cfg = base[idx]
    for a_cfg in base[idx + 1: idx + 60]:
      if a_cfg["cls"] != b_cfg["cls"] or set(a_cfg["kw"]) != set(b_cfg["kw"]) \
          or a_cfg.get("sigmoid", "hard") != b_cfg.get("sigmoid", "hard") or a_cfg["kw"] == b_cfg["kw"]:
        continue
      diff = [k for k in b_cfg["kw"] if a_cfg["kw"][k] != b_cfg["kw"][k]]
      if b_cfg["cls"] == "quantized_linear" and any(k != "symmetric" for k in diff):
        # bits / integer / keep_negative are read-only properties there; assigning
        # alpha leaves the quantization_scale computed in __init__ stale on the
        # unchanged tree - whether alpha may be re-assigned that way is not
        # documented clearly, so it is not generated (noted in DESIGN.md 8.18)
        continue
      muts.append(dict(b_cfg, **{"from": a_cfg["kw"]}))
      break
  cfgs += muts
  if tier != "quick":
    # wide formats: codes up to the 2^24-step bound of the property (partial walks)
    for b in (20, 24):
      cfgs.append({"cls": "quantized_relu", "kw": {"bits": b, "integer": 0, "negative_slope": 0.0}})
      cfgs.append({"cls": "quantized_bits", "kw": {"bits": b, "integer": 0, "symmetric": 1, "keep_negative": True, "alpha": None}})
      cfgs.append({"cls": "quantized_bits", "kw": {"bits": b, "integer": 2, "symmetric": 0, "keep_negative": True, "alpha": None}})
      cfgs.append({"cls": "quantized_linear", "kw": {"bits": b, "integer": 0, "symmetric": 1, "keep_negative": True, "alpha": None}})
  for c in cfgs:
    c.setdefault("sigmoid", "hard")
  return cfgs


def model(cfg):
  cls, kw = cfg["cls"], cfg["kw"]
  m = {"sign": False, "slope": 0.0, "neg_sat": None, "upper": None}
  if cls in ("quantized_bits", "quantized_linear"):
    b, i = kw.get("bits", 8), kw.get("integer", 0)
    kn = 1 if kw.get("keep_negative", True) else 0
    s = int(kw.get("symmetric", 0 if cls == "quantized_bits" else 1))
    a = kw.get("alpha", None)
    a = 1.0 if a is None else float(a)
    ub = b - kn
    m["surr"] = "id"
    if ub == 0:
      m["sign"] = True
      if cls == "quantized_bits":
        m["u"] = a
      else:
        # documented: scaled sign function; data type scale 2^(i-b+kn)=2^i,
        # codes are +-1/2 of it
        m["u"] = a * 2.0 ** i / 2.0
      m["kmin"], m["kmax"] = -1, 1
    else:
      m["u"] = a * 2.0 ** (i - ub)
      m["kmin"] = -(2 ** ub - s) if kn else 0
      m["kmax"] = 2 ** ub - 1
  elif cls == "quantized_relu":
    b, i = kw.get("bits", 8), kw.get("integer", 0)
    sl = float(kw.get("negative_slope", 0.0))
    nsb = b - (1 if sl != 0.0 else 0)
    m["u"] = 2.0 ** (i - nsb)
    m["kmax"] = 2 ** nsb - 1
    m["slope"] = sl
    m["surr"] = "relu_sigmoid" if kw.get("use_sigmoid", 0) else "relu"
    if sl != 0.0:
      m["neg_sat"] = -sl * 2 ** nsb      # in code units, may be fractional
      m["kmin"] = int(math.ceil(m["neg_sat"]))
    else:
      m["kmin"] = 0
    if not kw.get("is_quantized_clip", True):
      m["upper"] = kw.get("relu_upper_bound", None)
      m["unbounded_surrogate"] = m["upper"] is None
      if m["upper"] is not None:
        m["kmax"] = min(m["kmax"], int(math.floor(m["upper"] / m["u"])))
  elif cls == "quantized_tanh":
    b = kw.get("bits", 8)
    s = int(kw.get("symmetric", 0))
    mm = 2 ** (b - 1)
    m.update(u=1.0 / mm, kmin=-mm + s, kmax=mm - 1, surr="tanh")
    m["real"] = bool(kw.get("use_real_tanh", False))
  elif cls == "quantized_sigmoid":
    b = kw.get("bits", 8)
    s = int(kw.get("symmetric", 0))
    mm = 2 ** b
    m.update(u=1.0 / mm, kmin=s, kmax=mm - 1, surr="sigmoid")
    m["real"] = bool(kw.get("use_real_sigmoid", False))
  else:
    raise ValueError(cls)
  # unit of the *input* grid: the legacy quantized_bits multiplies its output
  # by a constant alpha (x -> alpha*Q(x)), quantized_linear divides first.
  m["u_in"] = m["u"]
  if cls == "quantized_bits" and kw.get("alpha") is not None:
    m["u_in"] = m["u"] / float(kw["alpha"])
  m["bound"] = 2.0 ** 24 * m["u"]
  # generation bound: the property's own bound (2^24 steps, exclusive) on the
  # finer of the input and output grids, minus a hair so the comparison is strict
  m["gen_bound"] = 2.0 ** 24 * min(m["u"], m["u_in"]) * (1.0 - 2.0 ** -20)
  m["sigmoid"] = cfg.get("sigmoid", "hard")
  return m


def build(cfg):
  from qkeras import quantizers as Q  # pylint: disable=g-import-not-at-top
  Q.set_internal_sigmoid(cfg.get("sigmoid", "hard"))
  if cfg.get("from") is None:
    return getattr(Q, cfg["cls"])(**cfg["kw"])
  import tensorflow as tf  # pylint: disable=g-import-not-at-top
  q = getattr(Q, cfg["cls"])(**cfg["from"])
  q(tf.constant(np.array([0.1, -0.3, 1.7, 0.0], dtype=F32)))    # first call in the old format
  for k, v in cfg["kw"].items():
    if cfg["from"].get(k) != v:
      setattr(q, k, v)
  return q


def call(q, xs):
  import tensorflow as tf  # pylint: disable=g-import-not-at-top
  x = tf.constant(np.asarray(xs, dtype=F32))
  return np.asarray(q(x).numpy(), dtype=F32)


def surrogate64(m, x):
  """Underlying activation in float64 (x float64 array)."""
  sg = m.get("sigmoid", "hard")

  def sigm(z):
    if sg == "hard":
      return np.clip(0.5 * z + 0.5, 0.0, 1.0)
    if sg == "smooth":
      return np.clip(0.1875 * z + 0.5, 0.0, 1.0)
    return 1.0 / (1.0 + np.exp(-z))

  if m["surr"] == "id":
    return x
  if m["surr"] == "relu":
    y = np.where(x >= 0, x, m["slope"] * x)
    return y
  if m["surr"] == "tanh":
    return np.tanh(x) if m.get("real") else 2.0 * sigm(x) - 1.0
  if m["surr"] == "sigmoid":
    return 1.0 / (1.0 + np.exp(-x)) if m.get("real") else sigm(x)
  raise ValueError(m["surr"])


def _nbrs(vals, k=2):
  """float32 values with +-1..k ulp neighbours."""
  v = np.asarray(vals, dtype=np.float64).astype(F32)
  out = [v]
  up, dn = v, v
  for _ in range(k):
    up = np.nextafter(up, F32(np.inf))
    dn = np.nextafter(dn, F32(-np.inf))
    out += [up, dn]
  return np.concatenate(out)


def walk(cfg, m=None, full=True):
  """Sorted, de-duplicated float32 walk over every rounding breakpoint and every
  code (+-2 ulp), saturation edges, zeros, denormals, large magnitudes."""
  m = m or model(cfg)
  u = m["u_in"]
  kmin, kmax = m["kmin"], m["kmax"]
  span = kmax - kmin
  if span > 600 and not full:
    p2 = np.concatenate([s * (2 ** np.arange(1, 25)) + d for s in (1, -1) for d in (-2, -1, 0, 1, 2)])
    ks = np.unique(np.concatenate([
        np.arange(kmin - 3, kmin + 40), np.arange(-20, 21),
        np.arange(kmax - 40, kmax + 4), p2[(p2 >= kmin) & (p2 <= kmax)],
        np.linspace(kmin, kmax, 400).astype(np.int64),
        np.linspace(kmin, kmax, 400).astype(np.int64) | 1]))
  else:
    ks = np.arange(kmin - 3, kmax + 4)
  ks = ks.astype(np.float64)
  pts_code = np.concatenate([ks, ks + 0.5])          # in code units of s(x)
  if m["surr"] in ("id",):
    xs = pts_code * u
  elif m["surr"] in ("relu", "relu_sigmoid"):
    xs = pts_code * u
    if m["slope"]:
      xs = np.concatenate([xs, pts_code[pts_code <= 0] * u / m["slope"],
                           np.array([m["neg_sat"] * u / m["slope"]]) ])
    if m["surr"] == "relu_sigmoid":
      xs = np.concatenate([xs, 2 * xs, xs / 0.375])
  else:
    p = np.clip(pts_code * u, -1 + 1e-12, 1 - 1e-12)
    sg = m["sigmoid"]
    if m["surr"] == "tanh":
      if m.get("real"):
        xs = np.arctanh(p)
      elif sg == "hard":
        xs = pts_code * u
      elif sg == "smooth":
        xs = pts_code * u / 0.375
      else:
        xs = 2 * np.arctanh(p)     # 2*sigmoid(x)-1 = tanh(x/2)
    else:
      p = np.clip(pts_code * u, 1e-12, 1 - 1e-12)
      if m.get("real") or sg == "real":
        xs = np.log(p / (1 - p))
      elif sg == "hard":
        xs = (pts_code * u - 0.5) / 0.5
      else:
        xs = (pts_code * u - 0.5) / 0.1875
  gb = m["gen_bound"]
  extra = np.array([0.0, -0.0, 1e-45, -1e-45, 1e-40, -1e-40, 1.1754944e-38,
                    -1.1754944e-38, 1e-30, -1e-30, u / 1024, -u / 1024,
                    gb * 0.999, -gb * 0.999, gb / 3, -gb / 3, gb / 1000.3,
                    -gb / 1000.3, 17.3 * u * span, -17.3 * u * span])
  if m["sign"]:
    # 1-bit sign modes: magnitudes around the float32 resolution of the shifted
    # argument (x/scale -+ 0.5), where the sign decision and the straight-through
    # sum are at their limits
    tiny = np.array([2.0 ** -e for e in (22, 23, 24, 25, 26, 27, 30)]) * u
    extra = np.concatenate([extra, tiny, -tiny, 3 * tiny, -3 * tiny])
  if m.get("upper") is not None:
    extra = np.concatenate([extra, [m["upper"]]])
  xs = np.concatenate([xs, extra])
  xs = xs[np.isfinite(xs)]
  xs = _nbrs(xs, 2)
  xs = xs[np.abs(xs.astype(np.float64)) < gb]
  xs = np.unique(xs)           # sorted ascending; -0.0 and 0.0 collapse
  xs = np.concatenate([xs, np.array([-0.0], dtype=F32)])
  return xs


def sort_f32(xs):
  return np.sort(np.asarray(xs, dtype=F32), kind="stable")


# ---------------------------------------------------------------------------
# Hypothesis strategies


def tensor_strategy(m, max_elems=48):
  """Tensors of rank 0..4 with elements from a mixture that favours
  breakpoints, codes, saturation and tiny values; all inside gen_bound."""
  from hypothesis import strategies as st  # pylint: disable=g-import-not-at-top
  u = m["u_in"]
  gb = m["gen_bound"]
  kmin, kmax = m["kmin"], m["kmax"]

  code = st.integers(kmin - 3, kmax + 3)
  half = st.sampled_from([0.0, 0.5, 0.25, 0.75, 0.499999, 0.500001])
  near = st.builds(lambda k, h, d: float(np.nextafter(F32((k + h) * u), F32(d))),
                   code, half, st.sampled_from([-np.inf, np.inf]))
  b1 = float(F32(gb * 0.99))
  b2 = float(F32(min(4 * u * (kmax - kmin + 2), gb * 0.99)))
  anyf = st.floats(min_value=-b1, max_value=b1, width=32,
                   allow_nan=False, allow_infinity=False)
  small = st.floats(min_value=-b2, max_value=b2, width=32, allow_nan=False)
  elem = st.one_of(near, anyf, small, st.sampled_from([0.0, -0.0, 1e-40]))
  shape = st.lists(st.integers(1, 4), min_size=0, max_size=4).filter(
      lambda s: int(np.prod(s)) <= max_elems if s else True)

  @st.composite
  def t(draw):
    shp = draw(shape)
    n = int(np.prod(shp)) if shp else 1
    vals = draw(st.lists(elem, min_size=n, max_size=n))
    vals = [float(F32(v)) for v in vals]
    vals = [v for v in vals if abs(v) < gb] + [0.0] * n
    return {"shape": shp, "xs": vals[:n]}
  return t()
