"""Shared machinery: environment pinning, per-worker context, failure buckets,
known-findings matching, Hypothesis driver (collect-then-shrink), evidence."""
import collections
import hashlib
import json
import os
import sys
import time
import traceback

HERE = os.path.dirname(os.path.dirname(os.path.abspath(__file__)))
KNOWN_FILE = os.path.join(HERE, "known_findings.json")


class HarnessError(Exception):
  pass


class Violation(Exception):
  """Raised inside a Hypothesis test for a failure that is not yet known."""


# --------------------------------------------------------------------------
# environment


def pin_environment():
  repo = os.environ.get("VERIF_REPO", "/repo")
  if repo not in sys.path[:2]:
    sys.path.insert(0, repo)
  os.environ.setdefault("TF_USE_LEGACY_KERAS", "1")
  os.environ.setdefault("TF_CPP_MIN_LOG_LEVEL", "3")
  import qkeras  # pylint: disable=g-import-not-at-top
  qf = os.path.realpath(qkeras.__file__)
  if not qf.startswith(os.path.realpath(repo) + os.sep):
    raise HarnessError("qkeras imported from %s, expected under %s" % (qf, repo))
  reset_globals()


def reset_globals():
  """Global state the library reads; re-asserted at the top of cases."""
  import tensorflow as tf  # pylint: disable=g-import-not-at-top
  K = tf.keras.backend
  K.set_image_data_format("channels_last")
  try:
    K.set_learning_phase(0)
  except Exception:  # pylint: disable=broad-except
    pass
  from qkeras import quantizers  # pylint: disable=g-import-not-at-top
  quantizers.set_internal_sigmoid("hard")


# --------------------------------------------------------------------------
# helpers


def jhash(obj):
  s = json.dumps(obj, sort_keys=True, default=str)
  return int.from_bytes(hashlib.blake2b(s.encode(), digest_size=8).digest(),
                        "big")


def fkey(sub_check, signature):
  return sub_check + "|" + json.dumps(signature, sort_keys=True, default=str)


def qkeras_frame(tb):
  """Innermost frame inside the code under test: 'file.py:function'."""
  repo = os.path.realpath(os.environ.get("VERIF_REPO", "/repo"))
  best = None
  for fs in traceback.extract_tb(tb):
    fn = os.path.realpath(fs.filename)
    if fn.startswith(repo + os.sep):
      best = "%s:%s" % (os.path.relpath(fn, repo), fs.name)
  return best


def exc_signature(e):
  """Root-cause bucket for an exception raised by the code under test."""
  fr = qkeras_frame(e.__traceback__)
  return {"exc": type(e).__name__, "frame": fr or "outside-qkeras"}


def match_known(known, sub_check, signature):
  for k in known:
    if k.get("status", "known") != "known":
      continue
    if k.get("sub_check") not in (None, sub_check):
      continue
    ok = True
    for mk, mv in k.get("match", {}).items():
      sv = signature.get(mk, None)
      if isinstance(mv, dict) and "in" in mv:
        if sv not in mv["in"]:
          ok = False
          break
      elif sv != mv:
        ok = False
        break
    if ok:
      return k
  return None


def load_known(pid):
  out = []
  files = [KNOWN_FILE]
  d = os.path.join(HERE, "known_findings.d")   # staging area, merged by hand
  if os.path.isdir(d):
    files += [os.path.join(d, f) for f in sorted(os.listdir(d))
              if f.endswith(".json")]
  for fn in files:
    if not os.path.exists(fn):
      continue
    with open(fn) as f:
      data = json.load(f)
    out += [k for k in data.get("findings", []) if k.get("property") == pid]
  return out


# --------------------------------------------------------------------------
# per-worker context


class Ctx(object):
  MAX_SAMPLES_PER_LABEL = 2

  def __init__(self, pid, tier, seed, idx, n, budget_s):
    self.pid, self.tier, self.seed, self.idx, self.n = pid, tier, seed, idx, n
    self.wseed = seed * 1009 + idx
    self.t0 = time.time()
    self.budget_s = budget_s
    self.known = load_known(pid)
    self.evals = 0
    self.labels = collections.Counter()
    self.nontrivial = set()
    self.samples = {}
    self.failures = {}
    self.info = {}
    self._session = set()
    self._target = None

  @property
  def quick(self):
    return self.tier == "quick"

  def time_left(self):
    return self.budget_s - (time.time() - self.t0)

  def shard(self, seq):
    for i, x in enumerate(seq):
      if i % self.n == self.idx:
        yield x

  def tick(self, case=None, labels=(), nontrivial=False, n=1, sample_label=None):
    """Count one (or n) oracle evaluations."""
    self.evals += n
    for l in labels:
      self.labels[l] += n
    if nontrivial and case is not None:
      self.nontrivial.add(jhash(case))
    if case is not None:
      sl = sample_label or (labels[0] if labels else "case")
      lst = self.samples.setdefault(sl, [])
      if len(lst) < self.MAX_SAMPLES_PER_LABEL and (nontrivial or not lst):
        lst.append(case)

  def is_known(self, sub_check, signature):
    return match_known(self.known, sub_check, signature) is not None

  def fail(self, sub_check, signature, case, detail=""):
    """Record a failure in its root-cause bucket. Returns the bucket key."""
    key = fkey(sub_check, signature)
    b = self.failures.get(key)
    size = len(json.dumps(case, default=str))
    if b is None:
      self.failures[key] = {"sub_check": sub_check, "signature": signature,
                            "case": case, "detail": str(detail)[:2000],
                            "count": 1, "size": size}
    else:
      b["count"] += 1
      if size < b["size"]:
        b.update(case=case, detail=str(detail)[:2000], size=size)
    return key

  def report(self, sub_check, signature, case, detail=""):
    """For stateful machines / free-form Hypothesis tests run by hyp_machine:
    records the failure; raises Violation when it is neither a known finding
    nor already collected in this session (so Hypothesis shrinks it, pinned to
    that signature)."""
    key = fkey(sub_check, signature)
    if self._target is not None:
      if key == self._target:
        self.fail(sub_check, signature, case, detail)
        raise Violation(key)
      return
    if self.is_known(sub_check, signature) or key in self._session:
      self.fail(sub_check, signature, case, detail)
      return
    self._target = key
    self.fail(sub_check, signature, case, detail)
    raise Violation(key)

  def result(self):
    return {"evals": self.evals, "labels": dict(self.labels),
            "nontrivial": list(self.nontrivial), "samples": self.samples,
            "failures": self.failures, "info": self.info,
            "wall": time.time() - self.t0,
            "budget_exhausted": self.time_left() <= 0}


def merge_results(results):
  m = {"evals": 0, "labels": collections.Counter(), "nontrivial": set(),
       "samples": {}, "failures": {}, "info": {}, "worker_wall": [],
       "budget_exhausted": 0}
  for r in results:
    m["budget_exhausted"] += 1 if r.get("budget_exhausted") else 0
    m["evals"] += r["evals"]
    m["labels"].update(r["labels"])
    m["nontrivial"].update(r["nontrivial"])
    for k, v in r["samples"].items():
      lst = m["samples"].setdefault(k, [])
      for c in v:
        if len(lst) < Ctx.MAX_SAMPLES_PER_LABEL:
          lst.append(c)
    for k, b in r["failures"].items():
      if k not in m["failures"]:
        m["failures"][k] = dict(b)
      else:
        mb = m["failures"][k]
        mb["count"] += b["count"]
        if b["size"] < mb["size"]:
          mb.update(case=b["case"], detail=b["detail"], size=b["size"])
    for k, v in r["info"].items():
      if isinstance(v, (int, float)) and isinstance(m["info"].get(k, 0),
                                                     (int, float)):
        m["info"][k] = m["info"].get(k, 0) + v
      else:
        m["info"].setdefault(k, v)
    m["worker_wall"].append(round(r["wall"], 1))
  return m


# --------------------------------------------------------------------------
# replay files


def run_committed_replays(ctx, mod):
  d = os.path.join(HERE, "replays", ctx.pid)
  if not os.path.isdir(d):
    return
  for fn in sorted(os.listdir(d)):
    if not fn.endswith(".json"):
      continue
    with open(os.path.join(d, fn)) as f:
      rp = json.load(f)
    before = ctx.evals
    mod.replay(ctx, rp["case"] if "case" in rp else rp)
    if ctx.evals == before:
      ctx.evals += 1
    ctx.labels["replayed_committed"] += 1


def write_replay(pid, bucket):
  d = os.path.join(HERE, "out", "replays", pid)
  os.makedirs(d, exist_ok=True)
  name = "%016x.json" % jhash([bucket["sub_check"], bucket["signature"]])
  p = os.path.join(d, name)
  with open(p, "w") as f:
    json.dump({"property": pid, "sub_check": bucket["sub_check"],
               "signature": bucket["signature"], "case": bucket["case"],
               "detail": bucket["detail"], "count": bucket["count"]}, f,
              indent=1, default=str)
  return p


# --------------------------------------------------------------------------
# finalisation


def finalize(pid, tier, seed, merged, known, mod, wall, is_replay, repo):
  violations = []
  known_hits = collections.Counter()
  for key, b in sorted(merged["failures"].items()):
    k = match_known(known, b["sub_check"], b["signature"])
    if k is not None:
      known_hits[k["id"]] += b["count"]
    else:
      violations.append(b)
  for k in known:
    if k.get("status", "known") == "known":
      if is_replay and not known_hits.get(k["id"]):
        continue
      print("KNOWN-FINDING: property=%s %s [%s] observed=%d" %
            (pid, k["what"], k["id"], known_hits.get(k["id"], 0)))
  rc = 0
  for b in violations:
    p = write_replay(pid, b)
    print("VIOLATION property=%s replay=%s" % (pid, p))
    print("  sub_check=%s signature=%s count=%d" %
          (b["sub_check"], json.dumps(b["signature"], sort_keys=True,
                                      default=str), b["count"]))
    print("  detail: %s" % b["detail"][:600])
    rc = 1

  if is_replay:
    print("replay: %d evaluation(s), %d violation(s), %d known" %
          (merged["evals"], len(violations), sum(known_hits.values())))
    return rc

  # vacuity guard: interesting classes must be populated
  req = getattr(mod, "REQUIRED_LABELS", {})
  if isinstance(req, (list, tuple)):
    req = {tier: list(req)}
  missing = [l for l in req.get(tier, [])
             if merged["labels"].get(l, 0) == 0]
  nontriv = len(merged["nontrivial"])
  samples = []
  for lab, lst in sorted(merged["samples"].items()):
    for c in lst:
      samples.append({"label": lab, "case": c})
  samples = samples[:40]
  ev = {
      "property_id": pid,
      "tier": tier,
      "seed": seed,
      "level": "exploration",
      "coverage": {
          "evaluations": int(merged["evals"]),
          "distinct_nontrivial": int(nontriv),
          "rule": getattr(mod, "RULE", ""),
          "samples": samples,
          "by_class": dict(sorted(merged["labels"].items())),
          "excluded_known": {k: int(v) for k, v in known_hits.items()},
          "inconclusive": int(merged["labels"].get("inconclusive_time", 0)),
          "workers_budget_exhausted": int(merged.get("budget_exhausted", 0)),
          "required_labels_not_reached": missing,
          "exhaustive": bool(merged["info"].get("exhaustive", False)),
          "info": merged["info"],
          "worker_wall_s": merged["worker_wall"],
          "repo": repo,
      },
      "assumptions": list(getattr(mod, "ASSUMPTIONS", [])),
      "wall_s": round(wall, 2),
      "violations": len(violations),
  }
  # evidence/ describes runs against /repo itself; runs of the harness's own tools
  # against a scratch copy (VERIF_REPO=..., tools/seedcheck.py, tools/mutate.py) and
  # single-case replays are recorded under out/evidence instead
  evdir = os.path.join(HERE, "evidence") if (repo == "/repo" and not is_replay) \
      else os.path.join(HERE, "out", "evidence")
  os.makedirs(evdir, exist_ok=True)
  with open(os.path.join(evdir, pid + ".json"), "w") as f:
    json.dump(ev, f, indent=1, sort_keys=True, default=str)
    f.write("\n")
  print("%s tier=%s seed=%d evaluations=%d nontrivial=%d violations=%d "
        "known_hits=%d wall=%.1fs" %
        (pid, tier, seed, merged["evals"], nontriv, len(violations),
         sum(known_hits.values()), wall))
  if rc == 0 and (nontriv < 2 or merged["evals"] < 1):
    print("HARNESS-ERROR vacuous run: nontrivial=%d evaluations=%d" %
          (nontriv, merged["evals"]))
    return 2
  if rc == 0 and missing:
    if merged.get("budget_exhausted", 0) > 0:
      # a time budget that is hit means "inconclusive", never a failure: the
      # classes below were not reached because the soft time budget ran out
      # (slow or heavily loaded machine), not because the generator is broken
      print("INCONCLUSIVE: time budget exhausted on %d worker(s) before reaching "
            "required classes %s (recorded in evidence)" %
            (merged["budget_exhausted"], missing))
      return 0
    print("HARNESS-ERROR vacuous run: missing labels %s nontrivial=%d" %
          (missing, nontriv))
    return 2
  return rc


# --------------------------------------------------------------------------
# Hypothesis driver: collect-then-shrink


def _make_test(ctx, strategy, oracle, session, done):
  from hypothesis import given  # pylint: disable=g-import-not-at-top
  state = {"target": None, "best": None}

  def body(case):
    if ctx.time_left() <= -60 and state["target"] is None:
      ctx.labels["inconclusive_time"] += 1
      return
    if state["target"] is None:
      done["n"] += 1
    try:
      fails = oracle(case) or []
    except HarnessError:
      raise
    unknown = []
    for (sc, sig, detail) in fails:
      key = fkey(sc, sig)
      if state["target"] is not None:
        if key == state["target"]:
          unknown.append((sc, sig, detail, key))
        continue
      if ctx.is_known(sc, sig) or key in session:
        ctx.fail(sc, sig, case, detail)
      else:
        unknown.append((sc, sig, detail, key))
    if unknown:
      sc, sig, detail, key = unknown[0]
      if state["target"] is None:
        state["target"] = key
      state["best"] = (sc, sig, detail, case)
      raise Violation(key)

  return state, given(strategy)(body)


def hyp_run(ctx, strategy, oracle, max_examples, name="hyp", max_rounds=8):
  """Runs `oracle(case) -> list[(sub_check, signature, detail)]` over cases
  drawn from `strategy`.

  Known failures (known_findings.json) and failures already collected in this
  session are recorded and the search continues behind them; the first unknown
  failure pins its signature, is shrunk by Hypothesis against that signature
  only (no slippage to another root cause), recorded, and the search restarts
  with the remaining budget.
  """
  import hypothesis  # pylint: disable=g-import-not-at-top
  from hypothesis import HealthCheck, Phase, given, settings  # pylint: disable=g-import-not-at-top

  session = set()
  done = {"n": 0}
  rounds = 0
  while done["n"] < max_examples and rounds < max_rounds:
    if ctx.time_left() <= 0:
      ctx.labels["inconclusive_time"] += 1
      break
    remaining = max_examples - done["n"]
    state, test = _make_test(ctx, strategy, oracle, session, done)

    test = settings(
        max_examples=max(1, remaining), database=None, deadline=None,
        derandomize=False, report_multiple_bugs=False, print_blob=False,
        suppress_health_check=list(HealthCheck),
        phases=[Phase.generate, Phase.shrink] if ctx.time_left() > 20 else
        [Phase.generate],
    )(test)
    test = hypothesis.seed(ctx.wseed * 31 + rounds * 7919 + jhash(name) % 1000)(
        test)
    try:
      test()
    except Violation:
      pass
    except hypothesis.errors.HypothesisException as e:
      if state["best"] is None:
        raise HarnessError("hypothesis: %s: %s" % (type(e).__name__, e))
    except BaseException as e:  # pylint: disable=broad-except
      # Flaky wrappers etc.: keep the recorded failure if there is one.
      if state["best"] is None or isinstance(e, (KeyboardInterrupt,
                                                  HarnessError)):
        raise
    if state["best"] is not None:
      sc, sig, detail, case = state["best"]
      ctx.fail(sc, sig, case, detail)
      session.add(fkey(sc, sig))
      rounds += 1
      continue
    break
  ctx.info["hyp_rounds_" + name] = rounds


def hyp_machine(ctx, machine_cls, max_examples, step_count=30, name="machine",
                max_rounds=6):
  """Runs a hypothesis RuleBasedStateMachine whose rules/invariants call
  ctx.report(...) on failure.  Collect-then-shrink as hyp_run."""
  import hypothesis  # pylint: disable=g-import-not-at-top
  from hypothesis import HealthCheck, settings  # pylint: disable=g-import-not-at-top
  from hypothesis.stateful import run_state_machine_as_test  # pylint: disable=g-import-not-at-top

  rounds = 0
  while rounds < max_rounds:
    if ctx.time_left() <= 0:
      ctx.labels["inconclusive_time"] += 1
      break
    ctx._target = None
    st = settings(max_examples=max(1, max_examples), database=None,
                  deadline=None, stateful_step_count=step_count,
                  report_multiple_bugs=False, print_blob=False,
                  suppress_health_check=list(HealthCheck))
    m = hypothesis.seed(ctx.wseed * 31 + rounds * 7919 + jhash(name) % 1000)(
        machine_cls)
    try:
      run_state_machine_as_test(m, settings=st)
    except Violation:
      pass
    except hypothesis.errors.HypothesisException as e:
      if ctx._target is None:
        raise HarnessError("hypothesis: %s: %s" % (type(e).__name__, e))
    except BaseException as e:  # pylint: disable=broad-except
      if ctx._target is None or isinstance(e, (KeyboardInterrupt,
                                               HarnessError)):
        raise
    if ctx._target is not None:
      ctx._session.add(ctx._target)
      ctx._target = None
      rounds += 1
      continue
    break
  ctx._target = None
  ctx.info["hyp_rounds_" + name] = rounds
